"""C16 Private properties and annotations attach exactly to the values coded for."""
import itertools, json, random
from common import *
from pool import run_pool, run_lines, out_bytes
from sxp import *
import gen_text as TX

FILES = ["Tie/C16_tie.v", "Props/C16.v"]
PAIRS = [('A', 'A,p'), ('Bdir', 'Bdir,p'), ('Bind', 'Bind,p'), ('E', 'E,p'), ('P', 'P,p'), ('I', 'Cex')]
OK = "NO_ERROR_DURING_PARSING"


# ---------------------------------------------------------------- generator
def around(tg, comp, rng, rich=False):
    """Other components that make a plausible statement around the pair under test (never the pair's own symbols)."""
    out = []
    if comp not in ('A', 'E'):
        out.append(('comp', 'A', '', '', ('leaf', tg.word())))
    if comp in ('E', 'P'):
        out.append(('comp', 'F', '', '', ('leaf', tg.word())))
    elif comp != 'I':
        out.append(('comp', 'I', '', '', ('leaf', tg.word())))
    if rich:
        for s in ['D', 'Cac', 'M']:
            if rng.random() < 0.3 and not (s == 'M' and comp not in ('E', 'P')):
                out.append(tg.comp(s, 2))
    return out


def prop_part(tg, rng, prop, suf, kind, ann=''):
    if kind == 'leaf':
        return ('comp', prop, suf, ann, ('leaf', tg.word()))
    if kind == 'comb2':
        return ('comp', prop, suf, ann, ('comb', '', ('op', rng.choice(TX.OPS), ('leaf', tg.word()), ('leaf', tg.word())), ''))
    if kind == 'comb3':
        return ('comp', prop, suf, ann, ('comb', '', tg.tree(3), ''))
    inner = [('comp', 'A', '', '', ('leaf', tg.word())), ('comp', 'I', '', '', ('leaf', tg.word()))]
    if rng.random() < 0.4:
        inner.append(('comp', 'Bdir', '', '', ('leaf', tg.word())))
    return ('nested', prop, suf, ann, inner)


def gen(tier, seed):
    rng = random.Random(seed * 919 + 16)
    tg = TX.TG(rng, annot_p=0.3, shared_p=0.0)
    q = tier == "quick"
    cases = []
    # M: every matching of 3 properties (no suffix / suffix of value 1 / of value 2 / of no value) against 3 annotations of
    #    the component (suffix 1, suffix 2, none); property kinds drawn per case; 2 (thorough: 6) source orders each
    pairs_m = [PAIRS[(seed + k) % 6] for k in range(2)] if q else PAIRS
    for comp, prop in pairs_m:
        for match in itertools.product(['', '1', '2', '9'], repeat=3):
            comps = [('comp', comp, s, '', ('leaf', tg.word())) for s in ('1', '2', '')]
            props = [prop_part(tg, rng, prop, s, rng.choice(['leaf', 'leaf', 'nested'])) for s in match]
            base = comps + props + around(tg, comp, rng)
            for _ in range(2 if q else 6):
                parts = list(base)
                rng.shuffle(parts)
                cases.append(("M", (comp, prop), parts, None))
    # P: every position of one private property among shared ones (priv_systematic), primitive and nested, all six pairs
    for comp, prop in PAIRS:
        for parts in TX.priv_systematic(tg, [(comp, prop)], nprops=3):
            cases.append(("P", (comp, prop), parts, None))
    # R: sampled: 1-4 annotations, values simple or combinations, 0-4 properties (single, combination of 2 or 3, nested),
    #    semantic annotations on any subset, any order
    for _ in range(90 if q else 2500):
        comp, prop = rng.choice(PAIRS)
        n = rng.randint(1, 4)
        sufs = rng.sample(['', '1', '2', '3', '4'], n)
        parts = []
        for s in sufs:
            c = ('comb', '', tg.tree(rng.randint(2, 3)), '') if rng.random() < 0.35 else ('leaf', tg.word())
            parts.append(('comp', comp, s, tg.annot(), c))
        for _ in range(rng.randint(0, 4)):
            parts.append(prop_part(tg, rng, prop, rng.choice(sufs + ['', '7']), rng.choice(['leaf', 'leaf', 'comb2', 'comb3', 'nested']), tg.annot()))
        parts += around(tg, comp, rng, rich=True)
        rng.shuffle(parts)
        cases.append(("R", (comp, prop), parts, None))
    # X: secondary suffix written after the property marker (A1,p2): the first element links, the second is ignored
    for _ in range(12 if q else 200):
        comp, prop = rng.choice(PAIRS[:5])
        comps = [('comp', comp, s, '', ('leaf', tg.word())) for s in ('1', '')]
        pp = [prop_part(tg, rng, prop, '1', 'leaf'), prop_part(tg, rng, prop, '', 'leaf')]
        parts = comps + pp + around(tg, comp, rng)
        rng.shuffle(parts)
        one = TX.r_part(pp[0])
        text = TX.r_stmt(parts).replace(one, one.replace(',p(', ',p%d(' % rng.randint(1, 9)), 1)
        cases.append(("X", (comp, prop), parts, text))
    return cases


# ---------------------------------------------------------------- expected attachment, read off the written statement
def occurrences(parts, comp, prop):
    comps = [p for p in parts if p[0] == 'comp' and p[1] == comp]
    props = [p for p in parts if p[0] in ('comp', 'nested') and p[1] == prop]
    return comps, props


def words_of(c):
    if c[0] == 'leaf':
        return [c[1]]
    out = []

    def go(t):
        if t[0] == 'leaf':
            out.append(t[1])
        elif t[0] == 'sh':
            go(t[2])
        else:
            go(t[2]); go(t[3])
    go(c[2])
    return out


def nested_key(p):
    """first value of a nested property statement (unique word)"""
    return words_of(p[4][0][4])[0]


def expected(parts, comp, prop):
    """-> per component value: (annotation, [private primitive values], [private nested keys]); shared primitive values;
    shared nested keys. First suffix element links; unmatched or unsuffixed properties stay shared."""
    comps, props = occurrences(parts, comp, prop)
    csuf = {p[2] for p in comps if p[2]}
    per = {}
    for cp in comps:
        pv, pn = [], []
        for pr in props:
            if cp[2] and pr[2] == cp[2]:
                if pr[0] == 'comp':
                    pv += words_of(pr[4])
                else:
                    pn.append(nested_key(pr))
        for w in words_of(cp[4]):
            per[w] = (cp[3], pv, pn)
    sh_v, sh_n = [], []
    for pr in props:
        if not pr[2] or pr[2] not in csuf:
            if pr[0] == 'comp':
                sh_v += words_of(pr[4])
            else:
                sh_n.append(nested_key(pr))
    return per, sh_v, sh_n


# ---------------------------------------------------------------- known finding F21: region computed on the written statement
class _N:
    __slots__ = ("parent", "left", "right", "lid")

    def __init__(self, lid=None):
        self.parent = self.left = self.right = None
        self.lid = lid


def _build(n, ids):
    if n[0] == 'L':
        x = _N(len(ids))
        ids.append(x)
        return x
    x = _N()
    x.left, x.right = _build(n[7], ids), _build(n[8], ids)
    x.left.parent = x.right.parent = x
    return x


def _remove(node):
    """RemoveNodeFromTree with object identity and the in-place overwrite of a parentless parent (children not re-pointed)."""
    p = node.parent
    if p is None:
        return False
    sib = p.right if p.left is node else p.left if p.right is node else None
    if sib is None:
        return False
    if p.parent is not None:
        g = p.parent
        if g.left is p:
            g.left = sib
        elif g.right is p:
            g.right = sib
        sib.parent = g
    else:
        sib.parent = None
        p.left, p.right, p.lid, p.parent = sib.left, sib.right, sib.lid, None
    node.parent = None
    return True


def heap_leftover(tree, linked_order):
    """Leaf numbers that stay in the property tree when the linked leaves are removed one by one on the heap."""
    ids = []
    root = _build(tree, ids)
    field = root
    for i in linked_order:
        t = ids[i]
        if not _remove(t):
            if field is not None and field.lid is not None and field.lid == t.lid and field.left is None:
                field = None
    out = []

    def walk(x):
        if x is None:
            return
        if x.left is None and x.right is None:
            out.append(x.lid)
        else:
            walk(x.left); walk(x.right)
    walk(field)
    return out


def f21_region(parts, comp, prop):
    """The sequence of pointer-based removals leaves a linked value in the shared tree (in-place root overwrite)."""
    fields = dict(TX.d_fields([p for p in parts if p[0] != 'fill']))
    comps, props = occurrences(parts, comp, prop)
    order_suf = []
    for cp in comps:
        if cp[2]:
            order_suf += [cp[2]] * len(words_of(cp[4]))
    for fld, kind in ((TX.SYM_FIELD[prop], 'comp'), (TX.SYM_FIELD_C.get(prop), 'nested')):
        if fld is None or fld not in fields:
            continue
        tr = fields[fld]
        sufs = []        # effective suffix per leaf, in order
        for pr in props:
            if pr[0] == kind:
                k = len(words_of(pr[4])) if kind == 'comp' else 1
                sufs += [pr[2]] * k
        order = []
        for s in order_suf:
            order += [i for i, t in enumerate(sufs) if t == s]
        seen, seq = set(), []
        for i in order:
            seq.append(i)
        linked = set(seq)
        left = heap_leftover(tr, seq)
        if any(i in linked for i in left):
            return True
    return False


@matcher("private_combination_root_overwrite")
def _m_f21(case, k):
    try:
        return f21_region(json.loads(case["ast"]), case["pair"][0], case["pair"][1])
    except Exception:
        return False


# ---------------------------------------------------------------- observation helpers
def proj(n, root=True):
    """Projection of a tree dump that keeps the private links."""
    def ent(e):
        if isinstance(e, tuple) and e[0] == 'T':
            return ('T', [(f, proj(x)) for f, x in e[1]])
        if isinstance(e, tuple) and e[0] == 'NS':
            return ('NS', [proj(x) for x in e[1]])
        return e
    if n[0] == 'L':
        return ('L', n[1] if root else b"", n[2], n[3], [x for x in n[4] if x], [x for x in n[5] if x], ent(n[6]), [proj(x, True) for x in n[7]])
    return ('C', n[1] if root else b"", n[2], n[3], [x for x in n[4] if x], [x for x in n[5] if x], n[6], proj(n[7], False), proj(n[8], False))


def val_key(lf):
    e = lf[6]
    if isinstance(e, bytes):
        return ('v', e.decode("utf-8", "replace"))
    if isinstance(e, tuple) and e[0] == 'T' and e[1]:
        first = leaves(e[1][0][1])[0][6]
        return ('n', first.decode("utf-8", "replace") if isinstance(first, bytes) else '?')
    return ('?', '')


def observed_tree(root, comp, prop):
    st = dict(root[6][1])
    per = {}
    for f in (TX.SYM_FIELD[comp],):
        if f in st:
            for lf in leaves(st[f]):
                k = val_key(lf)
                per[k[1]] = ([val_key(x)[1] for x in lf[7] if val_key(x)[0] == 'v'], [val_key(x)[1] for x in lf[7] if val_key(x)[0] == 'n'])
    sh_v = [val_key(lf)[1] for lf in leaves(st[TX.SYM_FIELD[prop]])] if TX.SYM_FIELD[prop] in st else []
    fc = TX.SYM_FIELD_C.get(prop)
    sh_n = [val_key(lf)[1] for lf in leaves(st[fc])] if fc in st else []
    return per, sh_v, sh_n


def json_nodes(txt):
    try:
        return json.loads(txt)
    except Exception:
        return None


def walk_json(n, f):
    f(n)
    for c in n.get("children", []) or []:
        walk_json(c, f)


def run(args):
    build = prepare(verbose=True)
    V = Verdict("C16", args.tier, args.seed)
    po = check_props(build, FILES)
    for f in po["broken_files"]:
        V.broke("coq:" + f, po["log"])
    if not build.ok_go or not build.modelrun:
        V.broke("build", (build.go_log or "") + " model driver missing" * (not build.modelrun))
        return V.finish(std_coverage(po, 0, 0, "harness did not build", []), po["assumptions"])
    cases = gen(args.tier, args.seed)
    if args.replay:
        rep = json.load(open(args.replay))
        inp = rep.get("input") or {}
        if inp.get("ast"):
            cases = [("replay", tuple(inp["pair"]), json.loads(inp["ast"]), inp.get("text"))]
    texts = [t if t is not None else TX.r_stmt(p) for _, _, p, t in cases]
    reqs = []
    for t in texts:
        reqs.append({"mode": "parse", "stmt": t})
        reqs.append({"mode": "tab", "stmt": t, "id": "7", "ext": True, "hdr": True, "anno": True})
        reqs.append({"mode": "vis", "stmt": t, "id": "7", "anno": True, "bin": False})
        reqs.append({"mode": "vis", "stmt": t, "id": "7", "anno": True, "flat": True})
        reqs.append({"mode": "tab", "stmt": t, "id": "7", "ext": False, "hdr": True, "anno": True})
    res = run_pool([build.obs], reqs, NCPU, timeout=120)
    model = run_lines([build.modelrun], ["privn\t" + wnode(TX.d_root(p)) for _, _, p, _ in cases])
    dist = {"stream": {}, "pair": {}, "outcome": {}, "private_values": 0, "shared_values": 0, "annotated_values": 0}
    n_checked = 0
    for ci, (stream, pair, parts, _) in enumerate(cases):
        comp, prop = pair
        t = texts[ci]
        rp, rt, rv, rf, rc = res[5 * ci: 5 * ci + 5]
        dist["stream"][stream] = dist["stream"].get(stream, 0) + 1
        dist["pair"][comp] = dist["pair"].get(comp, 0) + 1
        case = {"text": t, "ast": json.dumps(parts), "pair": [comp, prop]}
        if any("timeout" in r for r in (rp, rt, rv, rf, rc)):
            continue                     # no answer within the pool's limit (load): termination is C10's business
        if any(k in r for r in (rp, rt, rv, rf, rc) for k in ("panic", "exit")):
            dist["outcome"]["crash"] = dist["outcome"].get("crash", 0) + 1
            V.violation("private-property:crash", case, what="a statement with private properties crashes a conversion")
            continue
        if rp.get("err") != OK:
            dist["outcome"]["rejected"] = dist["outcome"].get("rejected", 0) + 1
            V.violation("private-property:statement-rejected:" + str(rp.get("err")), case, observed={"error": rp.get("err")}, what="a well-formed statement with suffixed properties is rejected")
            continue
        n_checked += 1
        root = rnode(rp["nodes"][0])
        per_e, shv_e, shn_e = expected(parts, comp, prop)
        per_o, shv_o, shn_o = observed_tree(root, comp, prop)
        dist["private_values"] += sum(len(v[1]) + len(v[2]) for v in per_e.values())
        dist["shared_values"] += len(shv_e) + len(shn_e)
        dist["annotated_values"] += sum(1 for v in per_e.values() if v[0])
        bad = None
        # (1) the parsed tree against the written statement
        for w, (ann, pv, pn) in per_e.items():
            o = per_o.get(w)
            if o is None:
                bad = ("private-property:component-value-missing", "component value %r is not in the parsed statement" % w, None, None)
                break
            if o[0] != pv or o[1] != pn:
                extra = [x for x in o[0] + o[1] if x not in pv + pn]
                miss = [x for x in pv + pn if x not in o[0] + o[1]]
                sig = "private-property:attached-to-wrong-value" if extra else "private-property:not-attached"
                bad = (sig, "value %r carries private properties %s, written: %s" % (w, o[0] + o[1], pv + pn), {"private": o[0] + o[1]}, {"private": pv + pn})
                break
        if bad is None and (shv_o != shv_e or shn_o != shn_e):
            still = [x for x in shv_o + shn_o if x not in shv_e + shn_e]
            gone = [x for x in shv_e + shn_e if x not in shv_o + shn_o]
            if still:
                sig = "private-property:combination-partially-withdrawn" if f21_region(parts, comp, prop) else "private-property:not-withdrawn-from-shared"
            else:
                sig = "private-property:shared-property-lost" if gone else "private-property:shared-order-changed"
            bad = (sig, "shared properties are %s, written: %s" % (shv_o + shn_o, shv_e + shn_e), {"shared": shv_o + shn_o}, {"shared": shv_e + shn_e})
        if bad is not None:
            dist["outcome"][bad[0]] = dist["outcome"].get(bad[0], 0) + 1
            V.violation(bad[0], case, observed=bad[2], expected=bad[3], what=bad[1])
            continue
        # (2) the model (Model/Priv.v on the denotation) against the parsed tree
        m = model[ci]
        if m.startswith("bad:"):
            V.violation("private-property:model-error", case, observed={"model": m[:200]}, what="the model did not evaluate", kind="correspondence")
            continue
        if proj(rnode(m)) != proj(root):
            dist["outcome"]["model-differs"] = dist["outcome"].get("model-differs", 0) + 1
            V.violation("private-property:parse-tree-differs-from-model", case, what="ParseStatement's tree (with private links) differs from Model/Priv.v applied to the statement's denotation", kind="correspondence")
            continue
        # (3) the exports show the attachment
        if rt.get("err") == OK and rt.get("rows"):
            rows = [r for r in rt["rows"][0] if not r.get("Statement ID", "").lstrip("'").startswith("{")]
            pcol = prop
            for r in rows:
                cell = r.get(comp, "")
                w = next((x for x in per_e if x in cell), None)
                if w is None:
                    continue
                ann, pv, pn = per_e[w]
                items = [x.strip() for x in r.get(pcol, "").split(",") if x.strip()]
                shared_here = [x for x in items if any(s in x for s in shv_e)]
                priv_here = [x for x in items if x not in shared_here]
                exp_priv = [x for x in pv]
                ok = sorted(priv_here) == sorted(exp_priv) and len(shared_here) == (1 if shv_e else 0)
                refs = [x for x in r.get(pcol + "-Ref", "").split(",") if x.strip()]
                ok_ref = len(refs) == len(pn) + len(shn_e)
                a_cell = r.get(comp + " (Annotation)", "").strip()
                ok_ann = a_cell == (ann or "")
                if not (ok and ok_ref and ok_ann):
                    what = ("row of value %r: property cell %r / references %r / annotation %r; written: private %s + one of shared %s, %d nested, annotation %r"
                            % (w, r.get(pcol, ""), r.get(pcol + "-Ref", ""), a_cell, pv, shv_e, len(pn) + len(shn_e), ann))
                    sig = "private-property:tabular-cell-differs" if not (ok and ok_ref) else "annotation:tabular-annotation-differs"
                    bad = (sig, what)
                    break
        # IG Core: nested private properties are written as text into the property cell of their value, next to the
        # primitive private values and one shared value
        if bad is None and rc.get("err") == OK and rc.get("rows"):
            for r in rc["rows"][0]:
                cell = r.get(comp, "")
                w = next((x for x in per_e if x in cell), None)
                if w is None:
                    continue
                ann, pv, pn = per_e[w]
                pcell = r.get(prop, "")
                miss = [x for x in pv + pn if x not in pcell]
                foreign = [x for w2, (_, pv2, pn2) in per_e.items() for x in pv2 + pn2 if x not in pv + pn and x in pcell]
                if miss or foreign:
                    bad = ("private-property:tabular-cell-differs", "IG Core row of value %r: property cell %r; written private properties of the value: %s%s"
                           % (w, pcell, pv + pn, (" (shows %s of another value)" % foreign) if foreign else ""))
                    break
        if bad is None and rv.get("err") == OK:
            js = json_nodes(rv.get("out", ""))
            if js is not None:
                found = {}

                def visit(n):
                    if n.get("comp") == comp and n.get("name") in per_e and "level" in n:
                        names, nested = [], [0]

                        def inner(x):
                            if x is n:
                                return
                            if x.get("comp") == prop and not x.get("children"):
                                names.append(x.get("name"))
                            if x.get("name") == prop and x.get("level", 1) >= 2:
                                nested[0] += 1
                        walk_json(n, inner)
                        found[n["name"]] = (sorted(names), nested[0], n.get("anno", ""))
                walk_json(js, visit)
                for w, (ann, pv, pn) in per_e.items():
                    if w not in found:
                        continue
                    names, nn, an = found[w]
                    # values shown beneath a value: names may carry shared text; compare by containment of the unique words
                    # Cex is a component of its own: only the private ones are shown beneath a value of I
                    exp = sorted((shv_e if comp != 'I' else []) + pv)
                    n_nested = len(pn) + (len(shn_e) if comp != 'I' else 0)
                    okv = len(names) == len(exp) and all(any(e in x for x in names) for e in exp)
                    if not okv or nn != n_nested or (an or "") != (ann or ""):
                        sig = "private-property:visual-children-differ" if (not okv or nn != n_nested) else "annotation:visual-annotation-differs"
                        bad = (sig, "value %r shows properties %s, %d nested, annotation %r; written: %s, %d nested, %r" % (w, names, nn, an, exp, n_nested, ann))
                        break
        if bad is None and rf.get("err") == OK:
            js = json_nodes(rf.get("out", ""))
            if js is not None:
                labels = {}

                def visit2(n):
                    if n.get("comp") == comp and n.get("name") in per_e and not n.get("children"):
                        labels[n["name"]] = n.get("prop", "")
                walk_json(js, visit2)
                for w, (ann, pv, pn) in per_e.items():
                    if w in labels:
                        lab = labels[w]
                        for x in (shv_e if comp != 'I' else []) + pv:
                            if x not in lab:
                                bad = ("private-property:visual-label-differs", "flat label of value %r is %r, written properties: %s" % (w, lab, shv_e + pv))
                        for w2, (_, pv2, _) in per_e.items():
                            for x in pv2:
                                if x not in pv and x in lab:
                                    bad = ("private-property:visual-label-differs", "flat label of value %r is %r and shows %r, which is private to %r" % (w, lab, x, w2))
        if bad is not None:
            dist["outcome"][bad[0]] = dist["outcome"].get(bad[0], 0) + 1
            V.violation(bad[0], case, what=bad[1])
            continue
        dist["outcome"]["ok"] = dist["outcome"].get("ok", 0) + 1
    cov = std_coverage(po, len(reqs) + len(cases), n_checked,
                       "M: every matching of 3 properties (no suffix / suffix of value 1 / of value 2 / of no value) against 3 annotations of the component, 2 source orders each (thorough: 6, all six "
                       "pairs; quick: 2 pairs per seed); P: every position of private among shared properties, primitive and nested, six pairs; R: 1-4 annotations (values simple or combinations), 0-4 "
                       "properties (single, combination of 2/3, nested), semantic annotations on any subset, any order; X: secondary suffix element. Per case: ParseStatement's tree against the attachment "
                       "read off the written statement (per value: private list in order; shared rest in order), against Model/Priv.v applied to the denotation, and tabular cells/references/annotation "
                       "column per row, visual property children per value (tree mode), flat labels and 'anno' members. Non-trivial = accepted statements.",
                       [texts[0], texts[len(texts) // 2]], {"distribution": dist, "endpoint_level": len(reqs), "exhaustive": False, "exhaustive_part": "matchings of 3 properties x 3 annotations for the generated pairs; source orders sampled"})
    return V.finish(cov, po["assumptions"])
