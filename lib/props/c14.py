"""C14 Concurrent requests do not influence each other's responses."""
import itertools, json, random
from web_common import *

FILES = ["Tie/C13_tie.v", "Tie/C14_tie.v", "Props/C14.v"]
STEPS = 5     # arrival (runs to the yield point "enter") -> enter -> options -> converted -> render -> done


def interleavings(counts):
    """All sequences over thread indices in which thread i occurs counts[i] times."""
    total = sum(counts)

    def rec(prefix, left):
        if len(prefix) == total:
            yield list(prefix)
            return
        for i, c in enumerate(left):
            if c:
                left[i] -= 1
                prefix.append(i)
                yield from rec(prefix, left)
                prefix.pop()
                left[i] += 1
    yield from rec([], list(counts))


def gen(tier, seed):
    rng = random.Random(seed * 733 + 14)
    batches = []
    s = STATEMENTS[4]
    s2 = STATEMENTS[0]
    pairs = [
        [vis_request(s2, opts={"binaryTree": True, "annotations": True, "dov": True}), vis_request(s2, opts={"propertyTree": True, "actCondTop": True})],
        [tab_request(s, opts={"igExtended": True, "annotations": True, "includeHeaders": True}), tab_request(s2, opts={"includeHeaders": False}, fmt=GS)],
        [tab_request(s2, opts={"igExtended": True, "includeHeaders": True}), vis_request(s2, opts={"annotations": True, "dov": True, "binaryTree": True})],
        # a GET request with the execute flag converts as well
        [tab_request(s2, opts={"igExtended": True, "annotations": True, "includeHeaders": True}, method="GET"), tab_request(s2, opts={"includeHeaders": True})],
        [vis_request(s2, opts={"binaryTree": True, "dov": True, "propertyTree": True}, method="GET"), vis_request(s2, opts={"annotations": True}, method="GET")],
    ]
    all2 = list(interleavings([STEPS, STEPS]))          # 252
    for k, reqs in enumerate(pairs):
        scheds = all2 if tier == "thorough" else rng.sample(all2, 70 if k == seed % len(pairs) else 14)
        for sch in scheds:
            batches.append({"conc": reqs, "schedule": ",".join(map(str, sch))})
    three = [vis_request(s2, opts={"binaryTree": True}), tab_request(s2, opts={"igExtended": True, "annotations": True}), vis_request(s2, opts={"propertyTree": True, "annotations": True, "dov": True})]
    for _ in range(25 if tier == "quick" else 600):
        sch = [0] * STEPS + [1] * STEPS + [2] * STEPS
        rng.shuffle(sch)
        batches.append({"conc": three, "schedule": ",".join(map(str, sch))})
    # real threads, no control (supporting evidence only)
    stress = [{"conc": [rnd_vis(rng, s2) if i % 2 else rnd_tab(rng, s2) for i in range(4)], "race": 12 if tier == "quick" else 80} for _ in range(3 if tier == "quick" else 20)]
    return batches, stress


def run(args):
    build = prepare(verbose=True)
    V = Verdict("C14", args.tier, args.seed)
    po = check_props(build, FILES)
    for f in po["broken_files"]:
        V.broke("coq:" + f, po["log"])
    if not build.ok_go:
        V.broke("go-build", build.go_log)
        return V.finish(std_coverage(po, 0, 0, "harness did not build", []), po["assumptions"])
    batches, stress = gen(args.tier, args.seed)
    # does the source hold a lock around the handler? (read by the translator; tells the scheduler which releases will block)
    try:
        locked = "Definition handler_locked : bool := true." in open(os.path.join(COQ, "Gen", "Handlers.v")).read()
    except OSError:
        locked = False
    for b in batches:
        b["locked"] = locked
    if args.replay:
        rep = json.load(open(args.replay))
        inp = rep.get("input") or {}
        if inp.get("conc"):
            batches, stress = [{"conc": inp["conc"], "schedule": inp.get("schedule", "")}], []
    fresh = Fresh(build)
    fresh.ensure([r for b in batches + stress for r in b["conc"]])
    res = run_lines_fresh(build, batches, timeout=180)
    n_cmp = 0
    dist = {"threads": {}, "blocked_steps": 0}
    for b, r in zip(batches, res):
        dist["threads"][len(b["conc"])] = dist["threads"].get(len(b["conc"]), 0) + 1
        if not isinstance(r, dict) or not r.get("responses") or len(r["responses"]) != len(b["conc"]):
            V.violation("schedule:service-died", {"conc": b["conc"], "schedule": b["schedule"]}, observed=str(r)[:300], what="the service did not answer every request under this schedule")
            continue
        for i, (q, x) in enumerate(zip(b["conc"], r["responses"])):
            n_cmp += 1
            if i == 0:
                dist["blocked_steps"] += (x.get("trace") or "").count(":waits-for-lock")
                dist["no_progress"] = dist.get("no_progress", 0) + (x.get("trace") or "").count(":no-progress")
            if x.get("stuck") or "panic" in x:
                V.violation("schedule:request-stuck-or-crashed", {"conc": b["conc"], "schedule": b["schedule"]}, observed=str(x)[:300], what="a request did not complete under this schedule")
                break
            a, s = mask(body_of(x)), mask(body_of(fresh.get(q)))
            if a != s:
                d = first_diff(a or b"", s or b"", 100)
                V.violation("schedule:response-differs-from-solo", {"conc": b["conc"], "schedule": b["schedule"], "request": i, "trace": x.get("trace")},
                            observed=d.get("a"), expected=d.get("b"),
                            what="under this interleaving the response differs from the one the request gets when processed alone")
                break
    # uncontrolled threads: every round must give the solo response
    sres = run_lines_fresh(build, stress, timeout=300)
    n_stress = 0
    for b, r in zip(stress, sres):
        if not isinstance(r, dict) or not r.get("responses"):
            V.violation("stress:service-died", {"conc": b["conc"], "race": b["race"]}, observed=str(r)[:300], what="the service died under concurrent load")
            continue
        for i, (q, x) in enumerate(zip(b["conc"], r["responses"])):
            n_stress += b["race"]
            if x.get("rounds_differing") or mask(body_of(x)) != mask(body_of(fresh.get(q))):
                V.violation("stress:response-differs-from-solo", {"conc": b["conc"], "race": b["race"], "request": i}, observed={"rounds_differing": x.get("rounds_differing")},
                            what="with real concurrent threads a response differed from the solo response")
                break
    cov = std_coverage(po, n_cmp + n_stress, len(batches),
                       "2 concurrent requests with pairwise different option vectors (visual/visual, tabular/tabular, tabular/visual): all 70 interleavings of their yield points "
                       "(entered, options applied, converted, rendered) for one pair (all pairs in the thorough tier), 12 sampled for the others; 3 concurrent requests: sampled interleavings; "
                       "each response (transaction id masked) must equal the response of a fresh process to the request alone. With the handler lock the scheduler observes which releases block. "
                       "Plus rounds of 4 uncontrolled real threads. Non-trivial = schedule.",
                       [json.dumps(batches[0])[:400]],
                       {"distribution": dist, "schedules": len(batches), "responses_compared": n_cmp, "stress_responses": n_stress, "exhaustive": False,
                        "not_expressible": "goroutine pre-emption inside a conversion, memory model effects and the race detector's view are outside the model; the yield points are the property's own granularity"})
    return V.finish(cov, po["assumptions"])
