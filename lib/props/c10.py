"""C10 No input crashes, kills or hangs the converter."""
import json, random, time
from common import *
from pool import run_pool, run_lines
import gen_text as TX
import props.c02 as C02
import props.c03 as C03

FILES = ["Props/C10.v"]
TOKS = ['A', 'A,p', 'D', 'I', 'Bdir', 'Bdir,p', 'Bind', 'Bind,p', 'Cac', 'Cex', 'E', 'E,p', 'M', 'F', 'P', 'P,p', 'O', '(', ')', '{', '}', '[', ']', '[AND]', '[OR]', '[XOR]',
        '[wAND]', '[bAND]', '[NOT]', ' ', ' ', ' ', 'x', 'y z', '1', '12', ',', ',p', '[a=b]', 'A(x)', 'I(y)', 'Cac{A(a) I(b)}', '{I(a) [XOR] I(b)}', 'A1', '"', '\\', '|', '\n',
        'ä', '€', '[1]', '[12]', '[ab', 'b]', '[abc]', ' [1])', ' [x]}', '(a [AND] b)', ' [OR] ', '}{', ')(', '((', '))', '{{', '}}', '[[', ']]']
TIME_LIMIT = 180.0       # 'unbounded' cannot be observed; inputs <= 2 KiB need up to ~25 s under 16-fold load on the unchanged tree
WELLFORMED_LIMIT = 30.0   # 'within seconds' for the well-formed extremes, same load


def junk(rng, maxlen=2048):
    k = rng.choice([1, 2, 3, 5, 8, 14, 30, 80, 200])
    s = ''.join(rng.choice(TOKS) for _ in range(k))[:maxlen]
    if rng.random() < 0.6:
        for l, r in (('(', ')'), ('{', '}')):
            d = s.count(l) - s.count(r)
            s = (l * (-d) if d < 0 else '') + s + (r * d if d > 0 else '')
    return s[:maxlen]


def mutate(rng, s):
    toks = ['(', ')', '{', '}', '[', ']', '[AND]', '[OR]', ' ', ',', ',p', '1', 'A', 'Cac']
    for _ in range(rng.randint(1, 3)):
        i = rng.randrange(len(s) + 1)
        k = rng.random()
        if k < 0.35:
            s = s[:i] + rng.choice(toks) + s[i:]
        elif k < 0.6 and s:
            j = min(len(s), i + rng.randint(1, 4))
            s = s[:i] + s[j:]
        elif k < 0.8 and s:
            j = min(len(s), i + rng.randint(1, 12))
            s = s[:j] + s[i:j] + s[j:]
        else:
            j = rng.randrange(len(s) + 1)
            a, b = min(i, j), max(i, j)
            s = s[:a] + s[b:] + s[a:b]
    return s[:2048]


def gen(tier, seed):
    rng = random.Random(seed * 601 + 10)
    tg = TX.TG(rng, annot_p=0.3, shared_p=0.3, suffix_p=0.2)
    cases = []
    n = 900 if tier == "quick" else 6000
    for _ in range(n):
        cases.append(("junk", junk(rng)))
    valid = []
    for _ in range(60 if tier == "quick" else 400):
        p = tg.stmt(rng.choice([0, 1, 2, 3]), maxleaves=3)
        valid.append(TX.r_stmt(p))
    for v in valid:
        for _ in range(6 if tier == "quick" else 10):
            cases.append(("mutated", mutate(rng, v)))
    # grammar extremes: 12 operands per combination, 4 nesting levels
    def chain(n, op):
        return '(' + (' [%s] ' % op).join("w%d" % i for i in range(n)) + ')'
    for op in TX.OPS:
        cases.append(("extreme", "A(x) I%s" % chain(12, op)))
    deep = "A(a) I(b)"
    for d in range(4):
        deep = "A(x%d) I(y%d) Cac{%s}" % (d, d, deep)
    cases.append(("extreme", deep))
    bal = TX.r_tree(TX.number_leaves(next(t for t in TX.tree_shapes(4)), [0]))
    cases.append(("extreme", "A%s I%s Bdir%s Cac{A%s I(z)}" % (bal, bal, bal, bal)))
    return cases


def run(args):
    build = prepare(verbose=True)
    V = Verdict("C10", args.tier, args.seed)
    po = check_props(build, FILES)
    for f in po["broken_files"]:
        V.broke("coq:" + f, po["log"])
    if not build.ok_go:
        V.broke("go-build", build.go_log)
        return V.finish(std_coverage(po, 0, 0, "harness did not build", []), po["assumptions"])
    cases = gen(args.tier, args.seed)
    if args.replay:
        rep = json.load(open(args.replay))
        if (rep.get("input") or {}).get("text") is not None:
            cases = [("replay", rep["input"]["text"])]
    rng = random.Random(args.seed)
    reqs = []
    for kind, t in cases:
        o = {"ext": rng.random() < 0.5, "anno": rng.random() < 0.5, "dyn": rng.random() < 0.3, "hdr": rng.random() < 0.5, "fmt": rng.choice(["Google Sheets", "CSV format", "other"]),
             "flat": rng.random() < 0.5, "bin": rng.random() < 0.5, "dov": rng.random() < 0.5, "actop": rng.random() < 0.5}
        reqs.append(dict(o, mode="tab", stmt=t, id="7", orig="o"))
        reqs.append(dict(o, mode="vis", stmt=t, id="7"))
    res = run_pool([build.obs], reqs, NCPU, timeout=TIME_LIMIT)
    # the combination parser's model predicts its outcome class (panics are explicit there): any PANIC it predicts is a finding too
    dist = {"kind": {}, "outcome": {}, "length": {}}
    slow = 0
    for i, (kind, t) in enumerate(cases):
        dist["kind"][kind] = dist["kind"].get(kind, 0) + 1
        dist["length"][min(len(t) // 100 * 100, 2000)] = dist["length"].get(min(len(t) // 100 * 100, 2000), 0) + 1
        for r, which in ((res[2 * i], "tabular"), (res[2 * i + 1], "visual")):
            case = {"text": t, "conversion": which, "options": {k: v for k, v in reqs[2 * i].items() if k not in ("stmt", "mode")}}
            if "panic" in r:
                dist["outcome"]["panic"] = dist["outcome"].get("panic", 0) + 1
                site = (r.get("stack") or "").split("IG-Parser/")[1].split("\n")[0][:80] if "IG-Parser/" in (r.get("stack") or "") else ""
                V.violation("crash:panic", case, observed={"panic": r["panic"][:200], "at": site}, what="the conversion panics")
            elif "exit" in r:
                dist["outcome"]["exit"] = dist["outcome"].get("exit", 0) + 1
                V.violation("crash:process-terminated", case, observed={"exit": r["exit"]}, what="the conversion terminates the process")
            elif "timeout" in r:
                dist["outcome"]["timeout"] = dist["outcome"].get("timeout", 0) + 1
                V.violation("crash:hang", case, observed={"seconds": TIME_LIMIT}, what="the conversion does not return within %d s" % TIME_LIMIT)
            else:
                dist["outcome"][r.get("err")] = dist["outcome"].get(r.get("err"), 0) + 1
                if kind == "extreme" and r.get("us", 0) > WELLFORMED_LIMIT * 1e6:
                    slow += 1
                    V.violation("crash:slow", case, observed={"seconds": r["us"] / 1e6}, what="a well-formed statement of practical size needs more than %d s" % WELLFORMED_LIMIT)
    cov = std_coverage(po, len(reqs), len(cases),
                       "junk: random token strings up to 2 KiB over an alphabet biased to IG Script tokens (symbols, parentheses, braces, brackets, operators, commas, digits, quotes, separators, non-ASCII), "
                       "60 %% with parenthesis/brace counts repaired; mutated: token-level insert/delete/duplicate/splice on valid generated statements; extreme: 12 operands per combination, 4 nesting levels; "
                       "each input through both conversions in a separate worker process under a random option vector; must return (no panic, no process exit) within %d s. Non-trivial = input." % TIME_LIMIT,
                       [cases[0][1][:200], cases[len(cases) // 2][1][:200]], {"distribution": dist, "endpoint_level": len(reqs), "exhaustive": False,
                                                                           "not_expressible": "wall time, memory, stack depth and the cost of compiling the patterns are measured, not modelled"})
    return V.finish(cov, po["assumptions"])
