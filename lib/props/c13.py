"""C13 A response depends only on its own request, not on earlier ones."""
import itertools, json, random
from web_common import *

FILES = ["Tie/C13_tie.v", "Props/C13.v"]


def all_vis_opts():
    return [dict(zip(VIS_BOOL, bits)) for bits in itertools.product([False, True], repeat=5)]


def all_tab_opts():
    return [dict(zip(TAB_BOOL, bits)) for bits in itertools.product([False, True], repeat=4)]


def gen(tier, seed):
    rng = random.Random(seed * 1301 + 13)
    pairs = []
    vis, tab = all_vis_opts(), all_tab_opts()
    s0, s1 = STATEMENTS[seed % len(STATEMENTS)], STATEMENTS[(seed + 1) % len(STATEMENTS)]
    # covering set: every switch of the previous request differs from the next request's on some pair, both pages, both orders
    n = 150 if tier == "quick" else 2500
    for i in range(n):
        k = i % 4
        if k == 0:
            prev, nxt = vis_request(s0, opts=rng.choice(vis)), vis_request(s1, opts=rng.choice(vis))
        elif k == 1:
            prev, nxt = tab_request(s0, opts=rng.choice(tab), fmt=rng.choice([GS, CSV])), tab_request(s1, opts=rng.choice(tab), fmt=rng.choice([GS, CSV]), po=rng.choice(["none", "all"]))
        elif k == 2:
            prev, nxt = vis_request(s0, opts=rng.choice(vis)), tab_request(s1, opts=rng.choice(tab))
        else:
            prev, nxt = tab_request(s0, opts=rng.choice(tab)), vis_request(s1, opts=rng.choice(vis))
        if i % 7 == 0:
            prev = (rnd_vis if prev["page"] == "vis" else rnd_tab)(rng, stmt=rng.choice(BAD_STATEMENTS))   # failing previous request
        if i % 11 == 0:
            prev["method"] = "GET"
            prev["query"] = dict(prev.pop("form", {}), execute="true") if "form" in prev else prev["query"]
        pairs.append([prev, nxt])
    # complement pairs: previous request with every switch opposite to the next one (each switch's staleness shows)
    for o in vis[:: (1 if tier == "thorough" else 5)]:
        inv = {k: not v for k, v in o.items()}
        pairs.append([vis_request(s0, opts=inv), vis_request(s0, opts=o)])
        pairs.append([tab_request(s0, opts={"annotations": inv["annotations"], "igExtended": True, "dynamicSchema": inv["dov"]}), vis_request(s0, opts=o)])
    for o in tab:
        inv = {k: not v for k, v in o.items()}
        pairs.append([tab_request(s1, opts=inv), tab_request(s1, opts=o)])
        pairs.append([vis_request(s1, opts={"annotations": inv["annotations"], "dov": True, "binaryTree": True}), tab_request(s1, opts=o)])
    # the same request again with exactly one option changed (everything else identical), both directions
    for k in TAB_BOOL:
        o = {kk: rng.random() < 0.5 for kk in TAB_BOOL}
        o["dynamicSchema"] = False if k != "dynamicSchema" else o["dynamicSchema"]
        o2 = dict(o); o2[k] = not o[k]
        f = rng.choice([GS, CSV])
        pairs.append([tab_request(s1, opts=o, fmt=f), tab_request(s1, opts=o2, fmt=f)])
        pairs.append([tab_request(s1, opts=o2, fmt=f), tab_request(s1, opts=o, fmt=f)])
    for k in VIS_BOOL:
        o = {kk: rng.random() < 0.5 for kk in VIS_BOOL}
        o2 = dict(o); o2[k] = not o[k]
        pairs.append([vis_request(s0, opts=o), vis_request(s0, opts=o2)])
        pairs.append([vis_request(s0, opts=o2), vis_request(s0, opts=o)])
    # a URL request that leaves an option out (the page's default applies) after a request that set that option either way
    for k in TAB_BOOL:
        for v in (False, True):
            prev = tab_request(s1, opts={kk: (v if kk == k else rng.random() < 0.5) for kk in TAB_BOOL}, method=rng.choice(["POST", "GET"]))
            pairs.append([prev, tab_request(s1, opts={kk: rng.random() < 0.5 for kk in TAB_BOOL if kk != k}, method="GET")])
    for k in VIS_BOOL:
        for v in (False, True):
            prev = vis_request(s0, opts={kk: (v if kk == k else rng.random() < 0.5) for kk in VIS_BOOL}, method=rng.choice(["POST", "GET"]))
            pairs.append([prev, vis_request(s0, opts={kk: rng.random() < 0.5 for kk in VIS_BOOL if kk != k}, method="GET")])
    hist = []
    for _ in range(20 if tier == "quick" else 300):
        h = [(rnd_vis if rng.random() < 0.5 else rnd_tab)(rng) for _ in range(rng.randint(2, 12))]
        hist.append(h)
    return pairs + hist


def run(args):
    build = prepare(verbose=True)
    V = Verdict("C13", args.tier, args.seed)
    po = check_props(build, FILES)
    for f in po["broken_files"]:
        V.broke("coq:" + f, po["log"])
    if not build.ok_go:
        V.broke("go-build", build.go_log)
        return V.finish(std_coverage(po, 0, 0, "harness did not build", []), po["assumptions"])
    seqs = gen(args.tier, args.seed)
    if args.replay:
        rep = json.load(open(args.replay))
        if (rep.get("input") or {}).get("history"):
            seqs = [rep["input"]["history"]]
    fresh = Fresh(build)
    fresh.ensure([s[-1] for s in seqs] + [r for s in seqs if len(s) > 2 for r in s])
    res = run_lines_fresh(build, [{"seq": s} for s in seqs])
    n_cmp, n_fail_prev = 0, 0
    dist = {"history_length": {}, "pages": {}}
    for s, r in zip(seqs, res):
        dist["history_length"][len(s)] = dist["history_length"].get(len(s), 0) + 1
        if not isinstance(r, dict) or not r.get("responses") or len(r["responses"]) != len(s):
            V.violation("history:service-died", {"history": s}, observed=str(r)[:300], what="the service did not answer every request of the history")
            continue
        # the last response of a pair; every response of a longer history
        idxs = [len(s) - 1] if len(s) == 2 else range(len(s))
        for i in idxs:
            a = mask(body_of(r["responses"][i]))
            b = mask(body_of(fresh.get(s[i])))
            n_cmp += 1
            k = "%s after %s" % (s[i]["page"], s[i - 1]["page"] if i else "-")
            dist["pages"][k] = dist["pages"].get(k, 0) + 1
            if a is None or b is None:
                if a != b:
                    V.violation("history:outcome-differs", {"history": s[: i + 1]}, observed=str(r["responses"][i])[:200], expected=str(fresh.get(s[i]))[:200],
                                what="the request is answered differently (crash/no answer) after the history than by a fresh service")
                continue
            if a != b or r["responses"][i].get("status") != (fresh.get(s[i]) or {}).get("status"):
                d = first_diff(a, b, 100)
                V.violation("history:response-depends-on-earlier-request", {"history": s[: i + 1]}, observed=d.get("a"), expected=d.get("b"),
                            what="the response to the last request differs from the one a freshly started service gives")
                break
    cov = std_coverage(po, n_cmp, len(seqs),
                       "ordered pairs (previous, next) over both pages: random option vectors plus, for every visual vector (sampled 1 in 5 in the quick tier) and every tabular vector, the pair whose previous "
                       "request has every switch opposite; previous requests succeeding and failing, POST and GET+execute; random histories of length 2-12 over both pages. Each history runs in one fresh process; "
                       "the response (transaction id masked) must equal byte for byte the response of a fresh process to the same request alone. Non-trivial = history.",
                       [json.dumps(seqs[0])[:400]],
                       {"distribution": dist, "histories": len(seqs), "responses_compared": n_cmp, "exhaustive": False,
                        "translated": "handler programs and read/write sets: see coq/Gen/Handlers.v of this run"})
    return V.finish(cov, po["assumptions"])
