"""C09 Visual tree shows exactly the parsed statement."""
import json, random
from common import *
from vis_common import *

FILES = ["Tie/C08_tie.v", "Tie/C09_tie.v", "Props/C09.v"]
PID = "C09"
# binary/collapsed x tree/flat x annotations (DoV and activation-conditions-first are C17's/C20's)
C09_FLAGS = ["%d%d%d00" % (a, b, c) for a in (0, 1) for b in (0, 1) for c in (0, 1)] + ["01011", "00001"]


def compare(V, case, f, r, mjson, mlv, counters):
    j = parse_out(r)
    if j is None:
        return
    if mjson is not None:
        if mjson.startswith("bad:"):
            V.broke("model:jsonn", mjson)
        else:
            exp = unhex(json.loads(mjson[3:])) if mjson.startswith("ok:") else None
            if exp != [j]:
                counters["mism"] += 1
                if counters["mism"] <= 3:
                    V.broke("correspondence:to_json", json.dumps({"case": case, "impl": j, "model": exp if exp is not None else mjson[:60]})[:2500])
    if mlv is not None and mlv.startswith("ok:"):
        spec = unhex(json.loads(mlv[3:]))
        got = leafseq(j)
        if got != spec:
            missing = [x for x in spec if x not in got]
            extra = [x for x in got if x not in spec]
            sig = "values:missing" if missing and not extra else "values:extra" if extra and not missing else "values:differ"
            V.violation(sig, case, observed={"extra": extra[:5], "n": len(got)}, expected={"missing": missing[:5], "n": len(spec)},
                        what="values shown in the visual tree differ from the values of the statement (component, text with shared text, level, label)")


def run(args):
    build = prepare(verbose=True)
    V = Verdict(PID, args.tier, args.seed)
    po = check_props(build, FILES)
    for f in po["broken_files"]:
        V.broke("coq:" + f, po["log"])
    if not build.ok_go or not build.modelrun:
        V.broke("build", build.go_log + build.coq_log[-1500:])
        return V.finish(std_coverage(po, 0, 0, "harness did not build", []), po["assumptions"])
    counters = {"mism": 0}
    # ---- tree level
    roots = gen_roots(args.tier, args.seed, 9, n_quick=700, n_thorough=10000)
    rtexts = [wnode(r) for r in roots]
    reqs, l1, l2, meta = [], [], [], []
    rng = random.Random(args.seed)
    for ri, t in enumerate(rtexts):
        for f in (C09_FLAGS if args.tier == "thorough" else rng.sample(C09_FLAGS, 4)):
            reqs.append(dict(vis_opts(f), mode="bvisn", tree=t))
            l1.append("jsonn\t%s\t%s" % (f, t))
            l2.append("lvn\t%s\t%s" % (f, t))
            meta.append((ri, f))
    if args.replay:
        rep = json.load(open(args.replay))
        if rep.get("input", {}).get("root"):
            t, f = rep["input"]["root"], rep["input"]["flags"]
            reqs, l1, l2, meta, rtexts = [dict(vis_opts(f), mode="bvisn", tree=t)], ["jsonn\t%s\t%s" % (f, t)], ["lvn\t%s\t%s" % (f, t)], [(0, f)], [t]
    impl = run_pool([build.obs], reqs, NCPU, timeout=30)
    mj = run_lines([build.modelrun], l1)
    ml = run_lines([build.modelrun], l2)
    nontrivial = 0
    seen = set()
    for (ri, f), r, a, b in zip(meta, impl, mj, ml):
        case = {"root": rtexts[ri], "flags": f}
        if "panic" in r or "exit" in r or "timeout" in r:
            if a.startswith("panic"):
                continue
            V.violation("crash:visual-print", case, observed={k: r[k] for k in r if k != "stack"}, what="visual printer panicked / exited / hung")
            continue
        if r.get("err") != "NO_ERROR":
            continue
        compare(V, case, f, r, a, b, counters)
        if ri not in seen:
            seen.add(ri)
            if rtexts[ri].count("(C ") >= 1:
                nontrivial += 1
    # ---- endpoint level: statements in which every property has its component
    ep = {"statements": 0, "accepted": 0}
    if not args.replay:
        import gen_text as GX
        rng = random.Random(args.seed * 7919 + 99)
        cases = []
        for i in range(90 if args.tier == "quick" else 2500):
            g = GX.TG(rng, annot_p=0.3, suffix_p=0.0)
            syms = [s for s in GX.PAREN if ',p' not in s]
            ast = g.stmt(rng.randint(0, 2 if args.tier == "quick" else 3), syms=syms)
            # properties only together with their component
            present = {p[1] for p in ast if p[0] == 'comp'}
            for base in ("A", "Bdir", "Bind", "E", "P"):
                if base in present and rng.random() < 0.4:
                    ast.append(g.comp(base + ",p", 3))
            cases.append((GX.r_stmt(ast), rng.choice(C09_FLAGS)))
        reqs = [dict(vis_opts(f), mode="visd", stmt=t) for t, f in cases]
        impl = run_pool([build.obs], reqs, NCPU, timeout=60)
        idx, l1, l2 = [], [], []
        for i, r in enumerate(impl):
            if r.get("err") == "NO_ERROR_DURING_PARSING" and len(r.get("nodes", [])) == 1 and "(X " not in r["nodes"][0]:
                idx.append(i)
                l1.append("jsonn\t%s\t%s" % (cases[i][1], r["nodes"][0]))
                l2.append("lvn\t%s\t%s" % (cases[i][1], r["nodes"][0]))
        mj = dict(zip(idx, run_lines([build.modelrun], l1)))
        ml = dict(zip(idx, run_lines([build.modelrun], l2)))
        ep["statements"] = len(cases)
        for i, ((t, f), r) in enumerate(zip(cases, impl)):
            case = {"stmt": t, "flags": f}
            if "timeout" in r:
                continue     # no answer within the pool's limit (load): termination is C10's business
            if "panic" in r or "exit" in r:
                V.violation("crash:visual-endpoint", case, observed={k: r[k] for k in r if k != "stack"}, what="visual conversion panicked / exited / hung")
                continue
            if i in mj:
                ep["accepted"] += 1
                compare(V, case, f, r, mj[i], ml[i], counters)
        ep["samples"] = [{"stmt": c[0], "flags": c[1]} for c in cases[:2]]
        # the view of a statement under an option vector does not depend on which conversions ran before it in the same
        # process: the same statements under two vectors that differ in annotations / DoV only, in both orders
        sel = [cases[i][0] for i in idx[:16 if args.tier == "quick" else 120] if len(cases[i][0]) < 300]
        order_a, order_b = [], []
        for t in sel:
            base = rng.choice(["00", "01", "10", "11"])
            fa, fb = base + "000", base + rng.choice(["100", "010", "110"])
            order_a += [(t, fa), (t, fb), (t, fa)]
            order_b += [(t, fb), (t, fa), (t, fb)]
        ra = run_pool([build.obs], [dict(vis_opts(f), mode="vis", stmt=t, id="7") for t, f in order_a], 1, timeout=120)
        rb = run_pool([build.obs], [dict(vis_opts(f), mode="vis", stmt=t, id="7") for t, f in order_b], 1, timeout=120)
        seen_a, seen_b = {}, {}
        for (t, f), r in zip(order_a, ra):
            seen_a.setdefault((t, f), []).append(r.get("out"))
        for (t, f), r in zip(order_b, rb):
            seen_b.setdefault((t, f), []).append(r.get("out"))
        ep["order_pairs"] = len(sel)
        for key in seen_a:
            outs = seen_a[key] + seen_b.get(key, [])
            if any(o is None for o in outs):
                continue
            if len(set(outs)) > 1:
                V.violation("view:depends-on-earlier-conversion", {"stmt": key[0], "flags": key[1]},
                            what="the visual output of a statement under one option vector differs with the conversions that ran before it in the same process")
                break
    if counters["mism"]:
        V.broken[-1]["detail"] += " (%d disagreeing cases)" % counters["mism"]
    cov = std_coverage(po, len(meta) + ep["statements"], nontrivial,
                       "T: %d root nodes (statements to nesting depth 5, pair combinations, private links, hostile texts) under 4 (thorough: all 10) vectors of binary/collapsed x tree/flat x annotations; E: generated statements in which every property has its component, through the endpoint. Non-trivial = root with at least one combination." % len(rtexts),
                       [{"root": rtexts[0], "flags": meta[0][1]}] + ep.get("samples", [])[:1],
                       {"tree_level": len(meta), "endpoint_level": ep, "correspondence_mismatches": counters["mism"]})
    return V.finish(cov, po["assumptions"])
