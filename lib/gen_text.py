"""Generator of IG Script statements (streams E, S, H of DESIGN.md section 4) as ASTs with a renderer.
AST:  stmt  = [part]
      part  = ('comp', sym, suffix, annot, content) | ('nested', sym, suffix, annot, stmt) | ('ncombo', sym, ntree)
            | ('pairs', ptree) | ('fill', text)
      content = ('leaf', text) | ('comb', shared_left, tree, shared_right)
      tree  = ('leaf', text) | ('op', OP, tree, tree)
      ntree = ('leaf', ('nested', sym, suffix, annot, stmt)) | ('op', OP, ntree, ntree)
      ptree = ('leaf', [part]) | ('op', OP, ptree, ptree)"""
import random

PAREN = ['A', 'A,p', 'D', 'I', 'Bdir', 'Bdir,p', 'Bind', 'Bind,p', 'Cac', 'Cex', 'E', 'E,p', 'M', 'F', 'P', 'P,p']
NEST = ['A,p', 'Bdir', 'Bdir,p', 'Bind', 'Bind,p', 'Cac', 'Cex', 'E,p', 'P', 'P,p', 'O']
NEST_NONPROP = ['Bdir', 'Bind', 'Cac', 'Cex', 'P', 'O']
OPS = ['AND', 'OR', 'XOR']
BASE = ['alpha', 'beta', 'gamma', 'delta', 'eps', 'zeta', 'eta', 'theta', 'iota', 'kappa']
FILL = ['the', 'of course', 'then,', 'in 2020', 'shall', 'unless otherwise stated;', 'and', '-', 'x1 y2']


class TG:
    def __init__(self, rng, text=None, suffix_p=0.0, annot_p=0.2, shared_p=0.25, fill_p=0.0):
        self.r = rng
        self.ctr = 0
        self.text = text
        self.suffix_p, self.annot_p, self.shared_p, self.fill_p = suffix_p, annot_p, shared_p, fill_p

    def word(self):
        self.ctr += 1
        if self.text is not None and self.r.random() < 0.5:
            return self.text(self.r)
        w = self.r.choice(BASE) + str(self.ctr)
        if self.r.random() < 0.3:
            w += ' ' + self.r.choice(['of things', 'items', 'and more stuff', 'x'])
        return w

    def tree(self, n):
        if n == 1:
            return ('leaf', self.word())
        k = self.r.randint(1, n - 1)
        return ('op', self.r.choice(OPS), self.tree(k), self.tree(n - k))

    def content(self, maxleaves=4):
        n = min(self.r.choice([1, 1, 1, 2, 2, 3, 4, maxleaves]), maxleaves)
        if n == 1:
            return ('leaf', self.word())
        sl = self.word() if self.r.random() < self.shared_p else ''
        sr = self.word() if self.r.random() < self.shared_p else ''
        return ('comb', sl, self.tree(n), sr)

    def annot(self):
        return self.r.choice(['[type=x]', '[role=actor,animate]', '[ctx=time]']) if self.r.random() < self.annot_p else ''

    def comp(self, sym=None, maxleaves=4, syms=None):
        sym = sym or self.r.choice(syms or PAREN)
        suffix = str(self.r.randint(1, 3)) if self.r.random() < self.suffix_p else ''
        return ('comp', sym, suffix, self.annot(), self.content(maxleaves))

    def stmt(self, depth, ncomp=None, allow_pairs=True, maxleaves=3, nest_syms=None, used=None, syms=None, pair_p=0.2, nest_p=0.7):
        """Statement with distinct component symbols at this level (same-type repetition is a separate option)."""
        r = self.r
        ncomp = ncomp or r.randint(1, 5)
        pool = list(syms or PAREN)
        r.shuffle(pool)
        chosen = pool[:ncomp]
        parts = [self.comp(s, maxleaves) for s in chosen]
        if r.random() < 0.15 and chosen:
            parts.append(self.comp(r.choice(chosen), 2))   # second annotation of one type -> implicit conjunction
        if depth > 0 and r.random() < nest_p:
            for _ in range(r.randint(1, 2)):
                sym = r.choice(nest_syms or NEST_NONPROP)
                if r.random() < 0.35:
                    parts.append(('ncombo', sym, self.ntree(sym, r.randint(2, 3), depth - 1)))
                else:
                    parts.append(('nested', sym, '', self.annot(), self.stmt(depth - 1, r.randint(1, 3), allow_pairs=False, maxleaves=2, nest_syms=nest_syms)))
        if allow_pairs and r.random() < pair_p:
            parts.append(('pairs', self.ptree(r.randint(2, 3), [s for s in PAREN if s not in chosen and ',p' not in s])))
        r.shuffle(parts)
        if self.fill_p:
            out = []
            for p in parts:
                if r.random() < self.fill_p:
                    out.append(('fill', r.choice(FILL)))
                out.append(p)
            parts = out
        return parts

    def ntree(self, sym, k, depth):
        if k == 1:
            return ('leaf', ('nested', sym, '', '', self.stmt(depth, self.r.randint(1, 2), allow_pairs=False, maxleaves=2)))
        j = self.r.randint(1, k - 1)
        return ('op', self.r.choice(OPS), self.ntree(sym, j, depth), self.ntree(sym, k - j, depth))

    def ptree(self, k, syms):
        if k == 1:
            n = self.r.randint(1, min(3, len(syms)))
            return ('leaf', [self.comp(s, 2) for s in self.r.sample(syms, n)])
        j = self.r.randint(1, k - 1)
        return ('op', self.r.choice(OPS), self.ptree(j, syms), self.ptree(k - j, syms))


def pairs_shared_stmt(tg, rng):
    """Component-pair combination with a component of the same type written outside the braces as well (a single value or
    a combination): the outside component is shared by - and implicitly conjoined in - every expanded statement."""
    w = tg.word
    shared_sym = rng.choice(['Cac', 'Cex', 'Bdir', 'Bind', 'A'])
    others = [x for x in ['I', 'Bdir', 'Cac', 'Cex', 'Bind'] if x != shared_sym]

    def group():
        g = [('comp', rng.choice(['I'] if shared_sym != 'I' else ['Bdir']), '', '', ('leaf', w())), ('comp', shared_sym, '', '', ('leaf', w()) if rng.random() < 0.7 else tg.content(2))]
        if rng.random() < 0.3:
            g.append(('comp', rng.choice([x for x in others if x != g[0][1]]), '', '', ('leaf', w())))
        return g
    k = rng.choice([2, 2, 3])
    t = ('leaf', group())
    for _ in range(k - 1):
        t = ('op', rng.choice(OPS), t, ('leaf', group())) if rng.random() < 0.5 else ('op', rng.choice(OPS), ('leaf', group()), t)
    outside = [('comp', shared_sym, '', '', ('comb', '', tg.tree(rng.randint(2, 3)), '') if rng.random() < 0.7 else ('leaf', w()))]
    if shared_sym != 'A':
        outside.append(('comp', 'A', '', '', ('leaf', w())))
    if rng.random() < 0.5:
        outside.append(('comp', 'D', '', '', ('leaf', w())))
    parts = outside + [('pairs', t)]
    rng.shuffle(parts)
    return parts


def groups_stmt(tg, rng):
    """Statement whose components hold several parenthesised combination groups side by side, with and without text
    between them (the parser joins such groups implicitly; the exporters join their values inside one cell)."""
    w = tg.word

    def g():
        if rng.random() < 0.25:
            return "(%s [%s] (%s [%s] %s))" % (w(), rng.choice(OPS), w(), rng.choice(OPS), w())
        return "(%s [%s] %s)" % (w(), rng.choice(OPS), w())

    def content():
        k = rng.choice([2, 2, 3])
        out = [w() + " "] if rng.random() < 0.3 else []
        for i in range(k):
            out.append(g())
            if i < k - 1:
                out.append(rng.choice([" ", " ", " %s " % w(), " %s %s " % (w(), w())]))
        if rng.random() < 0.3:
            out.append(" " + w())
        return ''.join(out)
    syms = rng.sample(['A', 'Bdir', 'Bind', 'Cac', 'Cex', 'E', 'P'], rng.randint(2, 3))
    parts = [('fill', "%s(%s)" % (s_, content())) for s_ in syms]
    for s_ in ['A', 'I']:
        if s_ not in syms:
            parts.append(('comp', s_, '', '', ('leaf', w())))
    if rng.random() < 0.4:
        parts.append(('comp', 'D', '', '', ('leaf', w())))
    rng.shuffle(parts)
    return parts


# ---------------------------------------------------------------- rendering
def r_tree(t, chain_ok=True):
    if t[0] == 'leaf':
        return t[1]
    if t[0] == 'sh':
        # an inner combination with text shared by all its values, in parentheses of its own: (left (a [AND] b) right)
        _, sl, inner, sr = t
        return '(' + (sl + ' ' if sl else '') + r_tree(inner, chain_ok) + (' ' + sr if sr else '') + ')'
    _, o, l, r = t
    ls = r_tree(l, chain_ok)
    if l[0] == 'op' and l[1] == o and chain_ok:
        ls = ls[1:-1]           # same-operator chain written without its parentheses (left-associated)
    rs = r_tree(r, chain_ok)
    return '(' + ls + ' [' + o + '] ' + rs + ')'


def r_content(c, chain_ok=True):
    if c[0] == 'leaf':
        return c[1]
    _, sl, t, sr = c
    s = r_tree(t, chain_ok)
    if sl or sr:
        return (sl + ' ' if sl else '') + s + (' ' + sr if sr else '')
    return s[1:-1]


def head(sym, suf):
    if ',p' in sym:
        return sym.replace(',p', suf + ',p') if suf else sym
    return sym + suf


def r_part(p, chain_ok=True):
    k = p[0]
    if k == 'comp':
        _, sym, suf, ann, c = p
        return head(sym, suf) + ann + '(' + r_content(c, chain_ok) + ')'
    if k == 'nested':
        _, sym, suf, ann, st = p
        return head(sym, suf) + ann + '{' + r_stmt(st, chain_ok) + '}'
    if k == 'ncombo':
        # optional unannotated text between the opening brace and the first member: ('ncombo', sym, tree, text)
        lead = (p[3] + ' ') if len(p) > 3 and p[3] else ''
        return p[1] + '{' + lead + r_ntree(p[2], chain_ok)[1:-1] + '}'
    if k == 'nsib':
        # sibling nested statements of one type joined by one written operator, without enclosing braces
        return (' [%s] ' % p[2]).join(p[1] + '{' + r_stmt(st, chain_ok) + '}' for st in p[3])
    if k == 'pairs':
        return r_ptree(p[1], chain_ok)
    if k == 'fill':
        return p[1]
    raise ValueError(k)


def r_ntree(t, chain_ok):
    if t[0] == 'leaf':
        return r_part(t[1], chain_ok)
    _, o, l, r = t
    return '{' + r_ntree(l, chain_ok) + ' [' + o + '] ' + r_ntree(r, chain_ok) + '}'


def r_ptree(t, chain_ok):
    if t[0] == 'leaf':
        return ' '.join(r_part(c, chain_ok) for c in t[1])
    _, o, l, r = t
    return '{' + r_ptree(l, chain_ok) + ' [' + o + '] ' + r_ptree(r, chain_ok) + '}'


def r_stmt(parts, chain_ok=True):
    return ' '.join(r_part(p, chain_ok) for p in parts)


# ---------------------------------------------------------------- properties of an AST
def has(parts, kind):
    for p in parts:
        if p[0] == kind:
            return True
        if p[0] == 'nested' and has(p[4], kind):
            return True
        if p[0] == 'ncombo' and nt_has(p[2], kind):
            return True
        if p[0] == 'pairs' and pt_has(p[1], kind):
            return True
    return False


def nt_has(t, kind):
    if t[0] == 'leaf':
        return has([t[1]], kind)
    return nt_has(t[2], kind) or nt_has(t[3], kind)


def pt_has(t, kind):
    if t[0] == 'leaf':
        return has(t[1], kind)
    return pt_has(t[2], kind) or pt_has(t[3], kind)


def nest_depth(parts):
    d = 0
    for p in parts:
        if p[0] == 'nested':
            d = max(d, 1 + nest_depth(p[4]))
        elif p[0] == 'ncombo':
            d = max(d, 1 + nt_depth(p[2]))
        elif p[0] == 'nsib':
            d = max(d, 1 + max(nest_depth(st) for st in p[3]))
        elif p[0] == 'pairs':
            d = max(d, pt_depth(p[1]))
    return d


def nt_depth(t):
    if t[0] == 'leaf':
        return nest_depth(t[1][4])
    return max(nt_depth(t[2]), nt_depth(t[3]))


def pt_depth(t):
    if t[0] == 'leaf':
        return nest_depth(t[1])
    return max(pt_depth(t[2]), pt_depth(t[3]))


# ---------------------------------------------------------------- shrinking (greedy delta debugging on the AST)
def _variants_tree(t):
    if t[0] == 'op':
        yield t[2]
        yield t[3]
        for v in _variants_tree(t[2]):
            yield ('op', t[1], v, t[3])
        for v in _variants_tree(t[3]):
            yield ('op', t[1], t[2], v)


def _variants_ntree(t):
    if t[0] == 'op':
        yield t[2]
        yield t[3]
        for v in _variants_ntree(t[2]):
            yield ('op', t[1], v, t[3])
        for v in _variants_ntree(t[3]):
            yield ('op', t[1], t[2], v)
    else:
        for v in _variants_part(t[1]):
            yield ('leaf', v)


def _variants_ptree(t):
    if t[0] == 'op':
        for v in _variants_ptree(t[2]):
            yield ('op', t[1], v, t[3])
        for v in _variants_ptree(t[3]):
            yield ('op', t[1], t[2], v)
    else:
        for v in variants(t[1]):
            if v:
                yield ('leaf', v)


def _variants_part(p):
    if p[0] == 'comp':
        _, sym, suf, ann, c = p
        if ann:
            yield ('comp', sym, suf, '', c)
        if suf:
            yield ('comp', sym, '', ann, c)
        if c[0] == 'comb':
            if c[1]:
                yield ('comp', sym, suf, ann, ('comb', '', c[2], c[3]))
            if c[3]:
                yield ('comp', sym, suf, ann, ('comb', c[1], c[2], ''))
            for v in _variants_tree(c[2]):
                yield ('comp', sym, suf, ann, ('comb', c[1], v, c[3]) if v[0] == 'op' else v)
    elif p[0] == 'nested':
        _, sym, suf, ann, st = p
        if ann:
            yield ('nested', sym, suf, '', st)
        if suf:
            yield ('nested', sym, '', ann, st)
        for v in variants(st):
            if v:
                yield ('nested', sym, suf, ann, v)
    elif p[0] == 'ncombo':
        for v in _variants_ntree(p[2]):
            yield ('ncombo', p[1], v) if v[0] == 'op' else v[1]
    elif p[0] == 'pairs':
        if p[1][0] == 'op':
            yield ('pairs', p[1][2])
            yield ('pairs', p[1][3])
        for v in _variants_ptree(p[1]):
            yield ('pairs', v)


def variants(parts):
    for i in range(len(parts)):
        yield parts[:i] + parts[i + 1:]
    for i, p in enumerate(parts):
        for v in _variants_part(p):
            if v[0] == 'pairs' and v[1][0] == 'leaf':
                yield parts[:i] + list(v[1][1]) + parts[i + 1:]
            else:
                yield parts[:i] + [v] + parts[i + 1:]


def shrink(parts, pred, budget=150):
    """Smallest statement (greedy) on which pred(parts) still holds; pred is called at most budget times."""
    cur = parts
    improved = True
    while improved and budget > 0:
        improved = False
        for v in variants(cur):
            if budget <= 0:
                break
            budget -= 1
            try:
                ok = pred(v)
            except Exception:
                ok = False
            if ok:
                cur = v
                improved = True
                break
    return cur


# ---------------------------------------------------------------- private properties (C16): suffix-linked components and properties
PRIV_PAIRS = [('A', 'A,p'), ('Bdir', 'Bdir,p'), ('Bind', 'Bind,p'), ('E', 'E,p'), ('P', 'P,p')]


def priv_stmt(tg, rng=None, ncomp=None, nprop=None, kinds=('leaf', 'leaf', 'comb', 'nested'), shuffle=True, extra=True):
    """Statement around one component type that supports private properties: 1-3 annotations of the component with
    distinct suffixes ('' / '1' / '2' / '3'), 0-4 properties whose suffix matches one of them, matches none, or is absent;
    each property a single value, a combination or a nested statement; other components around; any source order."""
    r = rng or tg.r
    comp, prop = r.choice(PRIV_PAIRS)
    ncomp = ncomp or r.randint(1, 3)
    nprop = r.randint(0, 4) if nprop is None else nprop
    sufs = r.sample(['', '1', '2', '3'], ncomp)
    parts = []
    for s in sufs:
        c = tg.content(2) if r.random() < 0.3 else ('leaf', tg.word())
        parts.append(('comp', comp, s, tg.annot(), c))
    for _ in range(nprop):
        s = r.choice(sufs + ['', '3', '1'])
        kind = r.choice(kinds)
        if kind == 'leaf':
            parts.append(('comp', prop, s, tg.annot(), ('leaf', tg.word())))
        elif kind == 'comb':
            parts.append(('comp', prop, s, tg.annot(), ('comb', '', tg.tree(r.randint(2, 3)), '')))
        else:
            inner = [('comp', 'A', '', '', ('leaf', tg.word())), ('comp', 'I', '', '', ('leaf', tg.word()))]
            if r.random() < 0.4:
                inner.append(('comp', 'Bdir', '', '', ('leaf', tg.word())))
            parts.append(('nested', prop, s, tg.annot(), inner))
    if extra:
        others = [s for s in ['I', 'D', 'Cac', 'Cex', 'M', 'F'] if r.random() < 0.4]
        if comp not in ('A', 'E') and r.random() < 0.7:
            others.append('A')
        for s in others:
            parts.append(tg.comp(s, 2))
    if shuffle:
        r.shuffle(parts)
    return parts


def priv_systematic(tg, pairs, nprops=3):
    """Every assignment of nprops properties to {shared, private to X1} for a statement 'X1(..) X(..) props...', once with
    nested-statement properties and once with primitive ones (C16: all matchings; the source order of the properties is the
    order of the assignment, so every position of the private property between shared ones occurs)."""
    import itertools
    out = []
    for comp, prop in pairs:
        for assign in itertools.product(['', '1'], repeat=nprops):
            for kind in ('nested', 'leaf'):
                parts = [('comp', comp, '1', '', ('leaf', tg.word())), ('comp', comp, '', '', ('leaf', tg.word()))]
                if comp not in ('A', 'E'):
                    parts.insert(0, ('comp', 'A', '', '', ('leaf', tg.word())))
                parts.append(('comp', 'I' if comp not in ('E', 'P') else 'F', '', '', ('leaf', tg.word())))
                for s in assign:
                    if kind == 'nested':
                        parts.append(('nested', prop, s, '', [('comp', 'A', '', '', ('leaf', tg.word())), ('comp', 'I', '', '', ('leaf', tg.word()))]))
                    else:
                        parts.append(('comp', prop, s, '', ('leaf', tg.word())))
                out.append(parts)
    return out


# ---------------------------------------------------------------- denotation: the tree a statement stands for (C01-C03)
# in the exchange format of lib/sxp.py. Spec, not model: leaves in source order, operators as written, same-operator
# chains left-associated, separate annotations of one component type joined by the implicit conjunction bAND
# (left-associated), text outside an inner combination shared by every value of that combination, nothing un-annotated.
SYM_FIELD = {'A': 'A', 'A,p': 'Ap', 'D': 'D', 'I': 'I', 'Bdir': 'Bdir', 'Bdir,p': 'Bdirp', 'Bind': 'Bind', 'Bind,p': 'Bindp', 'Cac': 'Cac', 'Cex': 'Cex',
             'E': 'E', 'E,p': 'Ep', 'M': 'M', 'F': 'F', 'P': 'P', 'P,p': 'Pp', 'O': 'O'}
SYM_FIELD_C = {'A,p': 'ApC', 'Bdir': 'BdirC', 'Bdir,p': 'BdirpC', 'Bind': 'BindC', 'Bind,p': 'BindpC', 'Cac': 'CacC', 'Cex': 'CexC', 'E,p': 'EpC', 'P': 'PC', 'P,p': 'PpC', 'O': 'O'}


def _b(x):
    return x.encode("utf-8") if isinstance(x, str) else x


def d_tree(t):
    """tree -> node (no component type on inner nodes)"""
    if t[0] == 'leaf':
        return ('L', b"", None, None, [], [], _b(t[1]), [])
    if t[0] == 'sh':
        n = d_tree(t[2])
        return n[:4] + ([_b(t[1])] if t[1] else [], [_b(t[3])] if t[3] else []) + n[6:]
    _, o, l, r = t
    return ('C', b"", None, None, [], [], o, d_tree(l), d_tree(r))


def d_comp(p):
    _, sym, suf, ann, c = p
    ann_v = _b(ann) if ann else None          # annotation text incl. brackets, as the parser stores it
    suf_v = _b(suf) if suf else None
    if c[0] == 'leaf':
        return ('L', _b(sym), suf_v, ann_v, [], [], _b(c[1]), [])
    _, sl, t, sr = c
    n = d_tree(t)
    return (n[0], _b(sym), suf_v, ann_v, [_b(sl)] if sl else [], [_b(sr)] if sr else []) + n[6:]


def d_stmt(parts):
    """flat statement (components only; nesting and pairs: see d_stmt_full) -> [(field, node)] in field order"""
    by = {}
    for p in parts:
        if p[0] == 'comp':
            f = SYM_FIELD[p[1]]
            n = d_comp(p)
            if f in by:
                by[f] = ('C', _b(p[1]), None, None, [], [], 'bAND', by[f], n)
            else:
                by[f] = n
    order = ["A", "Ap", "ApC", "D", "I", "Bdir", "BdirC", "Bdirp", "BdirpC", "Bind", "BindC", "Bindp", "BindpC",
             "E", "Ep", "EpC", "M", "F", "P", "PC", "Pp", "PpC", "Cac", "CacC", "Cex", "CexC", "O"]
    return [(f, by[f]) for f in order if f in by]


def strip_node(n, keep_ct=True):
    """Projection compared for C01: operator, entries, shared text, suffix, annotation; component type on the root only."""
    if n[0] == 'L':
        return ('L', n[1] if keep_ct else b"", n[2], n[3], [x for x in n[4] if x], [x for x in n[5] if x], n[6])
    return ('C', n[1] if keep_ct else b"", n[2], n[3], [x for x in n[4] if x], [x for x in n[5] if x], n[6], strip_node(n[7], False), strip_node(n[8], False))


def tree_shapes(k, ops=OPS, shared=False):
    """All operator trees with k leaves over ops (leaves numbered by the caller)."""
    if k == 1:
        yield ('leaf', None)
        return
    for j in range(1, k):
        for l in tree_shapes(j, ops):
            for r in tree_shapes(k - j, ops):
                for o in ops:
                    yield ('op', o, l, r)


def number_leaves(t, ctr, word=lambda i: "v%d" % i):
    if t[0] == 'leaf':
        ctr[0] += 1
        return ('leaf', word(ctr[0]))
    if t[0] == 'sh':
        return ('sh', t[1], number_leaves(t[2], ctr, word), t[3])
    return ('op', t[1], number_leaves(t[2], ctr, word), number_leaves(t[3], ctr, word))


# ---------------------------------------------------------------- denotation with nesting and component pairs (C02, C03)
ORDER = ["A", "Ap", "ApC", "D", "I", "Bdir", "BdirC", "Bdirp", "BdirpC", "Bind", "BindC", "Bindp", "BindpC",
         "E", "Ep", "EpC", "M", "F", "P", "PC", "Pp", "PpC", "Cac", "CacC", "Cex", "CexC", "O"]


def d_nested(p):
    _, sym, suf, ann, st = p
    pairs = [q for q in st if q[0] == 'pairs']
    if pairs:
        # a nested statement that contains a component-pair combination: the operator tree of its expanded statements
        rest = [q for q in st if q[0] != 'pairs']
        n = d_ptree(pairs[0][1], d_fields(rest))
        return (n[0], _b(sym), _b(suf) if suf else None, _b(ann) if ann else None) + n[4:]
    return ('L', _b(sym), _b(suf) if suf else None, _b(ann) if ann else None, [], [], ('T', d_fields(st)), [])


def d_ntree(t, sym):
    if t[0] == 'leaf':
        return d_nested(t[1])
    _, o, l, r = t
    return ('C', _b(sym), None, None, [], [], o, d_ntree(l, sym), d_ntree(r, sym))


def d_fields(parts):
    """Fields of one statement without component pairs."""
    by = {}

    def add(f, n, ct, op):
        if f in by:
            by[f] = ('C', _b(ct), None, None, [], [], op, by[f], n)
        else:
            by[f] = n
    for p in parts:
        if p[0] == 'comp':
            add(SYM_FIELD[p[1]], d_comp(p), p[1], 'bAND')
    # separate nested annotations of one component type are conjoined; the order of that implicit conjunction is not part
    # of what is written: the parser joins the braced combinations first, then the single nested statements (each group in
    # source order), and so does this reading
    for p in parts:
        if p[0] == 'ncombo':
            add(SYM_FIELD_C[p[1]], d_ntree(p[2], p[1]), p[1], 'AND')
        elif p[0] == 'nsib':
            ns = [d_nested(('nested', p[1], '', '', st)) for st in p[3]]
            acc = ns[0]
            for x in ns[1:]:
                acc = ('C', _b(p[1]), None, None, [], [], p[2], acc, x)
            add(SYM_FIELD_C[p[1]], acc, p[1], 'AND')
    for p in parts:
        if p[0] == 'nested':
            add(SYM_FIELD_C[p[1]], d_nested(p), p[1], 'AND')
    return [(f, by[f]) for f in ORDER if f in by]


def merge_fields(group, outside):
    """CopyComponentsFromStatement: the group's components plus every outside component (same type: implicit conjunction)."""
    g = dict(group)
    for f, n in outside:
        if f in g:
            ct = FIELD_CT.get(f, b"")
            g[f] = ('C', ct, None, None, [], [], 'bAND', g[f], n)
        else:
            g[f] = n
    return [(f, g[f]) for f in ORDER if f in g]


FIELD_CT = {f: _b(s) for s, f in list(SYM_FIELD.items()) + list(SYM_FIELD_C.items())}


def d_ptree(t, outside):
    if t[0] == 'leaf':
        return ('L', b"", None, None, [], [], ('NS', [('L', b"", None, None, [], [], ('T', merge_fields(d_fields(t[1]), outside)), [])]), [])
    _, o, l, r = t
    return ('C', b"", None, None, [], [], o, d_ptree(l, outside), d_ptree(r, outside))


def d_root(parts):
    """The root node ParseStatement delivers: a statement, or the operator tree of the expanded pair statements."""
    pairs = [p for p in parts if p[0] == 'pairs']
    rest = [p for p in parts if p[0] != 'pairs']
    if not pairs:
        return ('L', b"", None, None, [], [], ('T', d_fields(rest)), [])
    return d_ptree(pairs[0][1], d_fields(rest))


def holds_statements(n):
    if n[0] == 'L':
        return isinstance(n[6], tuple)
    return holds_statements(n[7]) and holds_statements(n[8])


COMPLEX_FIELD_NAMES = {"ApC", "BdirC", "BdirpC", "BindC", "BindpC", "EpC", "PC", "PpC", "CacC", "CexC", "O"}


def conj_norm(n):
    """Nested statements of one component type written as separate annotations are conjoined; the parser joins them in the
    order its extraction passes find them (combinations first; statements with annotations or inner parentheses after the
    plain ones), which is not the source order and not part of what is written. The conjunction at the top of a nested
    component is therefore compared as a multiset of its operands."""
    if n[0] != 'C':
        return n
    top = n[6]       # the operator at the top: the implicit AND, or the one operator written between sibling nested statements

    def flat(x):
        if x[0] == 'C' and x[6] == top and not x[4] and not x[5] and not x[2] and not x[3]:
            return flat(x[7]) + flat(x[8])
        return [x]
    ops = flat(n)
    if len(ops) == 1:
        return n
    ops = sorted((('L' if o[0] == 'L' else 'C', b"") + tuple(o[2:]) for o in ops), key=repr)
    acc = ops[0]
    for o in ops[1:]:
        acc = ('C', b"", None, None, [], [], top, acc, o)
    return ('C', n[1]) + acc[2:]


def strip_full(n, root=True, sym=None):
    """Projection for C02/C03: operator, entries, shared text, suffix, annotation (component type on the root of a component
    only), descending into nested statements and node arrays. The parser stores the component symbol of a nested-statement
    combination as left shared text of the combination node (brace-mode extraction of the prefix); that artefact is dropped."""
    def ent(e):
        if isinstance(e, tuple) and e[0] == 'T':
            return ('T', [(f, conj_norm(strip_full(x)) if f in COMPLEX_FIELD_NAMES else strip_full(x)) for f, x in e[1]])
        if isinstance(e, tuple) and e[0] == 'NS':
            return ('NS', [strip_full(x) for x in e[1]])
        return e
    sym = n[1] if root else sym
    if n[0] == 'L':
        return ('L', n[1] if root else b"", n[2], n[3], [x for x in n[4] if x], [x for x in n[5] if x], ent(n[6]))
    shl = [x for x in n[4] if x]
    if holds_statements(n) and sym and shl == [sym]:
        shl = []
    return ('C', n[1] if root else b"", n[2], n[3], shl, [x for x in n[5] if x], n[6], strip_full(n[7], False, sym), strip_full(n[8], False, sym))
