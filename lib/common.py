"""Shared machinery of bin/check: build pipeline (translate -> coq -> extract -> ocaml -> go),
evidence, known findings, violation reporting."""
import fcntl, glob, hashlib, json, os, re, subprocess, sys, time

VERIF = os.path.dirname(os.path.dirname(os.path.abspath(__file__)))
REPO = os.environ.get("VERIF_REPO", "/repo")
CACHE = os.path.join(VERIF, ".cache")
BIN = os.path.join(CACHE, "bin")
COQ = os.path.join(VERIF, "coq")
GOENV = dict(os.environ, GOFLAGS="-mod=mod", GOPROXY="off", GOSUMDB="off", GOTOOLCHAIN="local", CGO_ENABLED="0")
NCPU = 16


def sh(cmd, cwd=None, env=None, timeout=3600):
    p = subprocess.run(cmd, cwd=cwd, env=env, shell=isinstance(cmd, str), stdout=subprocess.PIPE, stderr=subprocess.STDOUT, timeout=timeout)
    return p.returncode, p.stdout.decode("utf-8", "replace")


class Build:
    """Result of prepare(): what could be built from the current working tree of the repository."""
    def __init__(self):
        self.ok_go = False
        self.go_log = ""
        self.translate_ok = False
        self.translate_log = ""
        self.coq_log = ""
        self.failed_v = []        # .v files that failed to compile (relative to coq/)
        self.modelrun = None      # path of the extracted model driver, if it could be built
        self.comborun = None      # extracted combination-parser model (Parser/Combo.v)
        self.obs = os.path.join(BIN, "obs")
        self.webobs = os.path.join(BIN, "webobs")
        self.wall = {}


def _hash_files(paths):
    h = hashlib.sha256()
    for p in sorted(paths):
        h.update(p.encode())
        try:
            with open(p, "rb") as f:
                h.update(f.read())
        except OSError:
            h.update(b"<missing>")
    return h.hexdigest()[:20]


def coq_sources():
    out = []
    with open(os.path.join(COQ, "_CoqProject")) as f:
        for l in f:
            l = l.strip()
            if l.endswith(".v"):
                out.append(l)
    return out


def prepare(need_model=True, need_go=True, verbose=False):
    os.makedirs(BIN, exist_ok=True)
    os.makedirs(os.path.join(VERIF, "evidence", "replay"), exist_ok=True)
    lock = open(os.path.join(CACHE, "build.lock"), "w")
    fcntl.flock(lock, fcntl.LOCK_EX)
    b = Build()
    try:
        t0 = time.time()
        gosum = os.path.join(REPO, "go.sum")
        if os.path.exists(gosum):
            subprocess.run(["cp", gosum, os.path.join(VERIF, "go", "go.sum")])
        # 1. translator (its own code does not import the repository)
        rc, log = sh(["go", "build", "-o", os.path.join(BIN, "translate"), "./cmd/translate"], cwd=os.path.join(VERIF, "go"), env=GOENV)
        if rc != 0:
            b.translate_log = log
        else:
            os.makedirs(os.path.join(COQ, "Gen"), exist_ok=True)
            # SSA read/write sets (its own module: needs golang.org/x/tools from the module cache)
            ssa_json = os.path.join(CACHE, "ssa.json")
            rc0, log0 = sh(["go", "build", "-o", os.path.join(BIN, "gossa"), "."], cwd=os.path.join(VERIF, "gossa"), env=GOENV, timeout=600)
            if rc0 == 0:
                p = subprocess.run([os.path.join(BIN, "gossa"), REPO], stdout=subprocess.PIPE, stderr=subprocess.PIPE, env=GOENV, timeout=600)
                if p.returncode == 0:
                    open(ssa_json, "wb").write(p.stdout)
                else:
                    open(ssa_json, "w").write(json.dumps({"handler": {"error": p.stderr.decode("utf-8", "replace")[-400:]}}))
            else:
                open(ssa_json, "w").write(json.dumps({"handler": {"error": "gossa did not build: " + log0[-300:]}}))
            rc, log = sh([os.path.join(BIN, "translate"), REPO, os.path.join(COQ, "Gen"), ssa_json], timeout=300)
            b.translate_ok = rc == 0
            b.translate_log = log
        b.wall["translate"] = time.time() - t0
        # 2. Coq: full .vo build, keep going after a failure so that independent properties still check
        t0 = time.time()
        if not os.path.exists(os.path.join(COQ, "Makefile")) or os.path.getmtime(os.path.join(COQ, "Makefile")) < os.path.getmtime(os.path.join(COQ, "_CoqProject")):
            sh("coq_makefile -f _CoqProject -o Makefile", cwd=COQ)
        rc, log = sh("timeout 3000 make -k -j%d 2>&1" % NCPU, cwd=COQ, timeout=3100)
        b.coq_log = log
        if rc != 0:
            for m in re.finditer(r"\*\*\* \[[^\]]*?:\s*\d+:\s*(\S+)\.vo\]", log):
                if m.group(1) + ".v" not in b.failed_v:
                    b.failed_v.append(m.group(1) + ".v")
            for m in re.finditer(r'File "\./(\S+\.v)", line', log):
                if m.group(1) not in b.failed_v:
                    b.failed_v.append(m.group(1))
        b.wall["coq"] = time.time() - t0
        # 3. extraction + OCaml driver, keyed by the content of every model source
        t0 = time.time()
        if need_model:
            srcs = [os.path.join(COQ, s) for s in coq_sources() if not s.startswith(("Props/", "Tie/"))]
            srcs += [os.path.join(COQ, "Extract", "Extract.v"), os.path.join(COQ, "Extract", "ExtractCombo.v")] + glob.glob(os.path.join(VERIF, "ocaml", "*.ml"))
            key = _hash_files(srcs)
            d = os.path.join(CACHE, "ocaml", key)
            exe = os.path.join(d, "modelrun")
            if not os.path.exists(exe):
                os.makedirs(d, exist_ok=True)
                rc, log = sh("cp %s/Extract/Extract.v . && timeout 900 coqc -Q %s IGP Extract.v 2>&1 && cp %s/ocaml/*.ml . && "
                             "timeout 900 ocamlfind ocamlopt -w -a model.mli model.ml glue.ml modelrun.ml -o modelrun 2>&1 && "
                             "cp %s/Extract/ExtractCombo.v . && timeout 900 coqc -Q %s IGP ExtractCombo.v 2>&1 && "
                             "timeout 900 ocamlfind ocamlopt -w -a combo.mli combo.ml comborun.ml -o comborun 2>&1" % (COQ, COQ, VERIF, COQ, COQ), cwd=d, timeout=2000)
                if rc != 0:
                    b.coq_log += "\n[extract/ocaml]\n" + log
                    if os.path.exists(exe):
                        os.remove(exe)
            if os.path.exists(exe):
                b.modelrun = exe
            b.comborun = os.path.join(d, "comborun") if os.path.exists(os.path.join(d, "comborun")) else None
        b.wall["extract"] = time.time() - t0
        # 4. Go harness against the working tree, hooks on
        t0 = time.time()
        if need_go:
            rc, log = sh(["go", "build", "-tags", "verif", "-o", BIN + "/", "./cmd/obs", "./cmd/webobs"], cwd=os.path.join(VERIF, "go"), env=GOENV, timeout=1200)
            b.ok_go = rc == 0
            b.go_log = log
        b.wall["go"] = time.time() - t0
    finally:
        fcntl.flock(lock, fcntl.LOCK_UN)
        lock.close()
    if verbose:
        print("[build] %s failed_v=%s model=%s go=%s" % ({k: round(v, 1) for k, v in b.wall.items()}, b.failed_v, bool(b.modelrun), b.ok_go))
    return b


THEOREM_RE = re.compile(r"^\s*(Theorem|Lemma|Example|Corollary)\s+(\w+)", re.M)


def obligations_of(files):
    names = []
    for f in files:
        p = os.path.join(COQ, f)
        if os.path.exists(p):
            for m in THEOREM_RE.finditer(open(p).read()):
                names.append(f + ":" + m.group(2))
    return names


def check_props(build, files):
    """Re-runs coqc on the Props file (prints assumptions) and reports which obligations are discharged.
    files: Tie and Props files of the property (relative to coq/)."""
    obligations = obligations_of(files)
    broken = []
    assumptions = []
    # a failing Tie/Props file of ANOTHER property is not this property's business; everything else is upstream
    deps_failed = [f for f in build.failed_v if f in files or not f.startswith(("Props/", "Tie/"))]
    for f in files:
        vo = os.path.join(COQ, f[:-2] + ".vo")
        if f in deps_failed or not os.path.exists(vo):
            broken.append(f)
    log = ""
    if not broken:
        for f in files:
            if f.startswith("Props/"):
                rc, out = sh("timeout 600 coqc -Q . IGP %s 2>&1" % f, cwd=COQ, timeout=700)
                log += out
                if rc != 0:
                    broken.append(f)
                else:
                    cur = None
                    for line in out.split("\n"):
                        if line.startswith("Closed under the global context"):
                            assumptions.append("closed under the global context")
                        elif line.startswith("Axioms:"):
                            cur = []
                        elif cur is not None and line.strip():
                            assumptions.append("axiom: " + line.strip())
    else:
        # which upstream file broke?
        log = "\n".join(l for l in build.coq_log.split("\n") if "Error" in l or "File " in l or "***" in l)[-3000:]
    discharged = [o for o in obligations if o.split(":")[0] not in broken]
    if broken:
        # a broken upstream file invalidates everything downstream of it
        if any(not f.startswith(("Props/", "Tie/")) for f in deps_failed):
            discharged = []
    axioms = sorted(set(a for a in assumptions if a.startswith("axiom")))
    return {"obligations": obligations, "discharged": discharged, "broken_files": broken + [f for f in deps_failed if f not in broken],
            "log": log[-4000:], "assumptions": axioms if axioms else (["closed under the global context (every Print Assumptions)"] if assumptions else [])}


# ---------------------------------------------------------------------------------- findings / verdicts
def load_known():
    p = os.path.join(VERIF, "known_findings.json")
    if not os.path.exists(p):
        return []
    return json.load(open(p)).get("findings", [])


class Verdict:
    def __init__(self, pid, tier, seed):
        self.pid, self.tier, self.seed = pid, tier, seed
        self.violations = []     # dicts: signature, input, observed, expected, what
        self.known_seen = {}
        self.broken = []         # obligations / correspondences that no longer check
        self.t0 = time.time()
        self.known = [k for k in load_known() if k.get("property") == pid and k.get("status") == "open"]
        for f in ([] if REPLAY_PATH else glob.glob(os.path.join(VERIF, "evidence", "replay", "%s-*.json" % pid))):
            try:
                os.remove(f)
            except OSError:
                pass

    def violation(self, signature, case, observed=None, expected=None, what="", kind="input"):
        """Records a violating case; matches it against the open known findings."""
        for k in self.known:
            if k["signature"] == signature and known_match(k, case):
                self.known_seen.setdefault(k["signature"], {"count": 0, "what": k["what_fails"], "first": case})
                self.known_seen[k["signature"]]["count"] += 1
                return False
        self.violations.append({"signature": signature, "kind": kind, "input": case, "observed": observed, "expected": expected, "what": what})
        return True

    def broke(self, name, detail=""):
        self.broken.append({"name": name, "detail": detail[:3000]})

    def finish(self, coverage, assumptions=None):
        """Prints KNOWN-FINDING / VIOLATION lines, writes evidence and replay files, returns the exit code."""
        wall = time.time() - self.t0
        for sig, k in self.known_seen.items():
            print("KNOWN-FINDING: property=%s %s [%s; %d case(s) this run]" % (self.pid, k["what"], sig, k["count"]))
        rc = 0
        rdir = os.path.join(VERIF, "evidence", "replay")
        os.makedirs(rdir, exist_ok=True)
        if REPLAY_PATH:
            # replay of one recorded case: report, write nothing
            for sig in sorted({v["signature"] for v in self.violations}):
                print("VIOLATION property=%s replay=%s [%s]" % (self.pid, REPLAY_PATH, sig))
            if self.broken and not self.violations:
                print("VIOLATION property=%s replay=%s no-failing-input-found" % (self.pid, REPLAY_PATH))
            print("[%s] replay wall=%.1fs violations=%d known=%d" % (self.pid, wall, len(self.violations), sum(v["count"] for v in self.known_seen.values())))
            return 1 if (self.violations or self.broken) else 0
        if self.violations:
            # one replay per distinct signature, smallest case first
            seen = {}
            for v in self.violations:
                key = v["signature"]
                size = len(json.dumps(v["input"]))
                if key not in seen or size < seen[key][0]:
                    seen[key] = (size, v)
            for n, (sig, (_, v)) in enumerate(sorted(seen.items())):
                path = os.path.join(rdir, "%s-%d.json" % (self.pid, n + 1))
                rep = {"property": self.pid, "kind": v["kind"], "seed": self.seed, "tier": self.tier, "signature": sig, "what": v["what"],
                       "input": v["input"], "observed": v["observed"], "expected": v["expected"],
                       "broken": [b["name"] for b in self.broken],
                       "replay_cmd": "bin/check %s --replay %s" % (self.pid, os.path.relpath(path, VERIF))}
                json.dump(rep, open(path, "w"), indent=1, default=str)
                print("VIOLATION property=%s replay=%s" % (self.pid, path))
            rc = 1
        elif self.broken:
            path = os.path.join(rdir, "%s-obligation.json" % self.pid)
            rep = {"property": self.pid, "kind": "obligation", "seed": self.seed, "tier": self.tier,
                   "broken": self.broken,
                   "note": "a theorem, side condition or correspondence no longer checks against the current source; the search of this run found no input on which the property itself fails",
                   "replay_cmd": "bin/check %s --tier %s" % (self.pid, self.tier)}
            json.dump(rep, open(path, "w"), indent=1, default=str)
            print("VIOLATION property=%s replay=%s no-failing-input-found" % (self.pid, path))
            rc = 1
        coverage = dict(coverage)
        coverage["known_findings_seen"] = {k: v["count"] for k, v in self.known_seen.items()}
        coverage["broken"] = [b["name"] for b in self.broken]
        ev = {"property_id": self.pid, "tier": self.tier, "seed": self.seed, "level": "proof", "coverage": coverage,
              "assumptions": assumptions or [], "wall_s": round(wall, 2), "violations": len(self.violations) + (1 if (self.broken and not self.violations) else 0)}
        json.dump(ev, open(os.path.join(VERIF, "evidence", "%s.json" % self.pid), "w"), indent=1, default=str)
        print("[%s] tier=%s seed=%d wall=%.1fs obligations=%s/%s evaluations=%s violations=%d known=%d" % (
            self.pid, self.tier, self.seed, wall, coverage.get("discharged"), coverage.get("obligations"), coverage.get("evaluations"),
            len(self.violations), sum(v["count"] for v in self.known_seen.values())))
        return rc


MATCHERS = {}


def matcher(name):
    def deco(f):
        MATCHERS[name] = f
        return f
    return deco


def known_match(k, case):
    m = k.get("matcher", {"kind": "any"})
    if m["kind"] == "any":
        return True
    if m["kind"] == "literal":
        return case == k.get("minimal_input")
    if m["kind"] == "predicate":
        f = MATCHERS.get(m["name"])
        return bool(f and f(case, k))
    return False


TRUSTED_BASE = [
    "Coq 8.16.1 kernel incl. the vm_compute reduction machine (side conditions, examples); no native_compute",
    "translator go/cmd/translate (reads the Go source into coq/Gen/*.v)",
    "extraction: ExtrOcamlBasic only, no Extract Constant / Extract Inductive of our own; OCaml 4.13.1 compiler",
    "glue: ocaml/glue.ml (s-expression reader, byte<->char via Obj.magic, self-tested), go/sx (tree dump/build), lib/*.py (generators, diff)",
    "modelled, not verified: Go runtime, regexp, strconv, html/template, net/http (see DESIGN.md section 3)",
]


def std_coverage(po, evaluations, distinct, rule, samples, extra=None):
    cov = {"obligations": len(po["obligations"]), "discharged": len(po["discharged"]),
           "obligation_names": po["obligations"],
           "checker_cmd": "cd /verif/coq && make -k -j16 && coqc -Q . IGP Props/<id>.v   (full .vo build; Print Assumptions under every property theorem)",
           "trusted_base": TRUSTED_BASE + ["Print Assumptions of this run: " + "; ".join(po["assumptions"] or ["(not available: Props file did not compile)"])],
           "evaluations": evaluations, "distinct_nontrivial": distinct, "rule": rule, "samples": samples}
    if extra:
        cov.update(extra)
    return cov


def parse_args(argv):
    import argparse
    ap = argparse.ArgumentParser()
    ap.add_argument("pid")
    ap.add_argument("--tier", default=os.environ.get("VERIF_TIER", "quick"))
    ap.add_argument("--replay", default=None)
    ap.add_argument("--seed", type=int, default=int(os.environ.get("VERIF_SEED", "1")))
    a = ap.parse_args(argv)
    if a.tier not in ("quick", "thorough"):
        a.tier = "quick"
    global REPLAY_PATH
    REPLAY_PATH = os.path.abspath(a.replay) if a.replay else None
    return a


REPLAY_PATH = None      # set when one recorded case is replayed: nothing under evidence/ is written or removed then


def first_diff(a, b, ctx=160):
    """Context around the first position at which two byte strings differ."""
    if a is None or b is None:
        return {"a": None if a is None else a[:ctx].decode("utf-8", "replace"), "b": None if b is None else b[:ctx].decode("utf-8", "replace")}
    n = min(len(a), len(b))
    i = 0
    while i < n and a[i] == b[i]:
        i += 1
    lo = max(0, i - ctx)
    return {"at": i, "a": a[lo:i + ctx].decode("utf-8", "replace"), "b": b[lo:i + ctx].decode("utf-8", "replace")}
