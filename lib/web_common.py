"""Shared machinery of the web properties (C13 C14 C15): request construction, page decoding, fresh-process runs."""
import html, json, random, re, subprocess
from concurrent.futures import ThreadPoolExecutor
from common import *
from tab_common import PO, PI, GS, CSV
import gen_text as TX

TAB_BOOL = ["dynamicSchema", "igExtended", "annotations", "includeHeaders"]
VIS_BOOL = ["annotations", "dov", "propertyTree", "binaryTree", "actCondTop"]


def tab_request(stmt, sid="7", orig="", opts=None, fmt=CSV, po="none", pi="none", method="POST", extra=None):
    """opts: dict name -> bool over TAB_BOOL."""
    opts = opts or {}
    d = {"codedStmt": stmt, "rawStmt": orig, "stmtId": sid, "outputType": fmt,
         "printOriginalStatement": PO.get(po, po), "printIgScript": PI.get(pi, pi)}
    if method == "POST":
        for k in TAB_BOOL:
            if opts.get(k):
                d[k] = "on"
        d.update(extra or {})
        return {"page": "tab", "method": "POST", "form": d}
    q = dict(d)
    for k in TAB_BOOL:
        if k in opts:
            q[k] = "true" if opts[k] else "false"
    q["execute"] = "true"
    q.update(extra or {})
    return {"page": "tab", "method": "GET", "query": q}


def vis_request(stmt, sid="7", opts=None, method="POST", extra=None):
    opts = opts or {}
    d = {"codedStmt": stmt, "stmtId": sid}
    if method == "POST":
        for k in VIS_BOOL:
            if opts.get(k):
                d[k] = "on"
        d.update(extra or {})
        return {"page": "vis", "method": "POST", "form": d}
    q = dict(d)
    for k in VIS_BOOL:
        if k in opts:
            q[k] = "true" if opts[k] else "false"
    q["execute"] = "true"
    q.update(extra or {})
    return {"page": "vis", "method": "GET", "query": q}


def body_of(r):
    if r is None:
        return None
    if "bodyx" in r:
        return bytes.fromhex(r["bodyx"])
    return r.get("body", "").encode("utf-8", "surrogatepass") if "body" in r else None


def mask(body):
    """Response body with the per-request transaction id removed."""
    if body is None:
        return None
    return re.sub(rb"Request ID: [^ &<]*", b"Request ID: #", re.sub(rb"Request%20ID%3A%20[^%]*%5D", b"Request%20ID%3A%20#%5D", body))


def decode_page(body):
    """-> dict with the parts of the page a user sees: output, json (visual), error message, echoed fields, checkbox states."""
    t = body.decode("utf-8", "replace")
    d = {}
    m = re.search(r'<div id="output"[^>]*>(.*?)</div>', t, re.S)
    d["output"] = html.unescape(m.group(1)) if m else None
    m = re.search(r'var treeData = JSON\.parse\((.*)\);', t)
    d["json_literal"] = m.group(1) if m else None
    d["json"] = None
    if m:
        lit = m.group(1)
        try:
            d["json"] = json.loads(lit)       # the argument is a JS string literal that html/template writes JSON-compatibly
        except Exception:
            try:
                d["json"] = json.loads(re.sub(r"\\x([0-9a-fA-F]{2})", lambda k: "\\u00" + k.group(1), lit).replace("\\'", "'"))
            except Exception:
                d["json"] = None
    m = re.search(r"Error: (.*)", t)
    d["error"] = html.unescape(m.group(1)).strip() if m else None
    m = re.search(r'<textarea id="codedStmt"[^>]*>(.*?)</textarea>', t, re.S)
    d["codedStmt"] = html.unescape(m.group(1)) if m else None
    m = re.search(r'<textarea id="rawStmt"[^>]*>(.*?)</textarea>', t, re.S)
    d["rawStmt"] = html.unescape(m.group(1)) if m else None
    m = re.search(r'id="stmtId"[^>]*value="([^"]*)"', t)
    d["stmtId"] = html.unescape(m.group(1)) if m else None
    d["checked"] = {}
    for k in set(TAB_BOOL + VIS_BOOL):
        m = re.search(r'<input id="%s" name="%s" type="checkbox" (\w*)' % (k, k), t)
        if m:
            d["checked"][k] = m.group(1) == "checked"
    for k in ("canvasHeight", "canvasWidth"):
        m = re.search(r'id="%s"[^>]*value="([^"]*)"' % k, t)
        d[k] = m.group(1) if m else None
    d["selected"] = [html.unescape(x) for x in re.findall(r'<option value="([^"]*)" selected="selected"', t)]
    return d


def run_line(build, line, timeout=120):
    """One webobs process serving one line (= one history or one concurrent batch); fresh process state."""
    try:
        p = subprocess.run([build.webobs], input=(json.dumps(line) + "\n").encode(), stdout=subprocess.PIPE, stderr=subprocess.PIPE, timeout=timeout)
    except subprocess.TimeoutExpired:
        return {"timeout": True}
    out = p.stdout.decode("utf-8", "replace").strip()
    if not out:
        return {"exit": p.returncode, "stderr": p.stderr.decode("utf-8", "replace")[-400:]}
    try:
        return json.loads(out.split("\n")[-1])
    except Exception:
        return {"bad": out[:300]}


def run_lines_fresh(build, lines, workers=NCPU, timeout=120):
    with ThreadPoolExecutor(max_workers=workers) as ex:
        return list(ex.map(lambda l: run_line(build, l, timeout), lines))


class Fresh:
    """Responses of a freshly started service, memoised per request."""
    def __init__(self, build):
        self.build, self.memo = build, {}

    def key(self, req):
        return json.dumps(req, sort_keys=True)

    def ensure(self, reqs):
        todo = []
        for r in reqs:
            k = self.key(r)
            if k not in self.memo and k not in [self.key(x) for x in todo]:
                todo.append(r)
        res = run_lines_fresh(self.build, [{"seq": [r]} for r in todo])
        for r, x in zip(todo, res):
            self.memo[self.key(r)] = (x.get("responses") or [None])[0] if isinstance(x, dict) else None

    def get(self, req):
        return self.memo.get(self.key(req))


STATEMENTS = [
    "A(actor) D(must) I(act [XOR] wait) Bdir(the thing) Cex(carefully) Cac{A(other) I(asks)}",
    "A[role=x](a1 [AND] a2) A,p(good) I(do) Bdir,p(shiny) Bdir(b1 [OR] b2) Cac(c1) Cac(c2)",
    "A(x) {I(a) Bdir(b) [OR] I(c) Bdir(d)} Cex[ctx=time](when (needed [AND] possible))",
    "E(entity) F(is) P(prop1 [AND] prop2) P,p(nice) Cac{A(a) I(i) Cex{A(b) I(j)}}",
    "A(x) I(y) Cac(c1 [AND] c2) Cac(c3 [AND] (c4 [AND] c5)) Bdir((u [OR] v) mid (s [AND] t))",
]
BAD_STATEMENTS = ["A(x) I(y", "no components here", "A(a [AND] b [OR] c) I(z)", "A(x) A(x) I(y)", ""]


def rnd_tab(rng, stmt=None):
    return tab_request(stmt if stmt is not None else rng.choice(STATEMENTS + BAD_STATEMENTS[:2]), sid=rng.choice(["7", "12", "a.1"]), orig=rng.choice(["", "the original"]),
                       opts={k: rng.random() < 0.5 for k in TAB_BOOL}, fmt=rng.choice([GS, CSV]), po=rng.choice(["none", "first", "all"]), pi=rng.choice(["none", "first", "all"]),
                       method=rng.choice(["POST", "POST", "GET"]))


def rnd_vis(rng, stmt=None):
    return vis_request(stmt if stmt is not None else rng.choice(STATEMENTS + BAD_STATEMENTS[:2]), opts={k: rng.random() < 0.5 for k in VIS_BOOL}, method=rng.choice(["POST", "POST", "GET"]))
