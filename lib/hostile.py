"""Stream H: hostile alphabets for leaf texts, annotations, IDs and original statements."""
PIECES = [b'"', b"'", b"\\", b"\r", b"\n", b"\r\n", b"\t", b"|", b";", b",", b"\x01", b"\x1f", b"\x7f", b"<", b">", b"&", b"=",
          b"\xc3\xa9", b"\xe2\x82\xac", b"\xc5\xbe", b"\xff", b"\xc3", b"A", b"Cac", b"1", b"2", b" ", b"{", b"}", b"[", b"]", b"(", b")",
          b"\\n", b"\\u0041", b"\"\"", b"/", b"\x00", b"'lead", b"=SUM(1)", b"+", b"-", b"@"]
WORDS = [b"actor", b"must", b"comply", b"policy", b"x", b"y"]


# a backslash in front of every letter that has a meaning after a backslash in JSON (incomplete and complete escapes)
ESCAPES = [b"\\u", b"\\users", b"\\u00", b"\\u12G4", b"\\upload", b"\\b", b"\\f", b"\\r", b"\\t", b"\\/", b"\\\\u", b"\\\\", b"\\x41", b"\\\"", b"C:\\users\\public"]


def hostile_text(rng, structural=True, maxlen=4, escapes=0.0):
    if escapes and rng.random() < escapes:
        return (rng.choice(WORDS) + b" " if rng.random() < 0.5 else b"") + rng.choice(ESCAPES) + (rng.choice([b"", b" ", b"1", b"a"]) + rng.choice(WORDS) if rng.random() < 0.6 else b"")
    """Any byte string is a legal leaf of a built tree; structural=False leaves out brackets for parsed text."""
    if rng.random() < 0.04:
        return rng.choice([b" ", b"\t", b"  ", b" \t "])      # a blank value (what "X,p( )" leaves behind)
    n = rng.randint(1, maxlen)
    out = []
    for _ in range(n):
        if rng.random() < 0.55:
            p = rng.choice(PIECES)
            if not structural and p in (b"{", b"}", b"[", b"]", b"(", b")"):
                p = b"."
            out.append(p)
        else:
            out.append(rng.choice(WORDS))
    s = b" ".join(out) if rng.random() < 0.6 else b"".join(out)
    return s if s else b"x"
