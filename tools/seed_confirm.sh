#!/bin/bash
# tools/seed_confirm.sh <seed-id> <worktree> <demo-dest-relative> <demo-test-regex> <pkg>
# Confirms a seeded change independently in its scratch worktree: builds, suite passes with the change,
# demo fails with the change and passes without. Writes /verif/seeded/<id>/confirm.log
set -u
ID=$1; WT=$2; DEST=$3; RX=$4; PKG=$5
export GOFLAGS=-mod=mod GOPROXY=off GOSUMDB=off GOTOOLCHAIN=local
OUT=/verif/seeded/$ID; mkdir -p $OUT
cp $WT/_seed/patch.diff $OUT/patch.diff; cp $WT/_seed/notes.md $OUT/notes.md 2>/dev/null
for f in $WT/_seed/*; do case "$f" in *patch.diff|*notes.md) ;; *) cp -r "$f" $OUT/ ;; esac; done
L=$OUT/confirm.log; : > $L
cd $WT
git stash -q -u 2>/dev/null; git checkout -q -- . ; git stash drop -q 2>/dev/null
mkdir -p $(dirname $DEST); echo "== clean tree: demo must pass" >> $L
cp $OUT/$(basename $DEST | sed 's/seed_demo_test.go/demo_test.go/') $DEST 2>/dev/null || cp $OUT/demo_test.go $DEST
go test -vet=off -count=1 -run "$RX" $PKG >> $L 2>&1; echo "rc_clean_demo=$?" >> $L
echo "== apply patch" >> $L
git apply $OUT/patch.diff >> $L 2>&1; echo "rc_apply=$?" >> $L
go build ./core/... ./web/... >> $L 2>&1; echo "rc_build=$?" >> $L
echo "== with change: demo must fail" >> $L
go test -vet=off -count=1 -run "$RX" $PKG >> $L 2>&1; echo "rc_seed_demo=$?" >> $L
rm -f $DEST
echo "== with change: suite must pass" >> $L
go test -vet=off -count=1 ./core/... ./web/css/... ./web/libraries/... >> $L 2>&1; echo "rc_suite=$?" >> $L
grep "^rc_" $L
