#!/usr/bin/env python3
"""Writes MANIFEST.json from the table below (kept in one place so that it stays valid)."""
import json, os
VERIF = os.path.dirname(os.path.dirname(os.path.abspath(__file__)))
props = [json.loads(l) for l in open(os.path.join(VERIF, "properties.jsonl"))]

NOTE = ("Trusted: Coq 8.16.1 kernel + vm_compute (no native_compute, no axioms: Print Assumptions reports 'Closed under the global context' "
        "for every property theorem); the translator go/cmd/translate; extraction (ExtrOcamlBasic only) + OCaml glue; the Go/Python harness. ")

CHECKS = {
    "C20": dict(
        technique="Coq proof (induction over all trees) of model = documented recurrence; model wiring regenerated from source by translator, side condition by vm_compute; correspondence by OCaml extraction on built trees",
        text="Theorems C20_node / C20_total: for every tree on which the recurrence is defined, the ported CalculateStateComplexity/CalculateComplexity equal the documented recurrence, for any per-component wiring satisfying the decidable side condition dov_wiring_ok; the wiring is regenerated from IGStatement.go on every run and the side condition re-checked. Correspondence: extracted model vs the exported Go functions on every operator tree (5 operators) on every field in turn plus sampled nested statements; the recurrence is additionally evaluated directly on the implementation's values.",
        note=NOTE + "Modelled not verified: shared.AggregateIfGreaterThan/FindMaxValue bodies (hand-ported, tied by correspondence), Go int arithmetic (unbounded Z in the model).",
        ref="DESIGN.md section 5 C20"),
}

checks = []
for pid, c in sorted(CHECKS.items()):
    checks.append({
        "property_id": pid,
        "quick_cmd": "bin/check %s --tier quick" % pid,
        "thorough_cmd": "bin/check %s --tier thorough" % pid,
        "evidence_file": "/verif/evidence/%s.json" % pid,
        "replay_cmd_template": "bin/check %s --replay {path}" % pid,
        "engine": "coq-model",
        "level_claimed": {"category": "proof", "text": c["text"], "design_ref": c["ref"]},
        "level_note": c["note"],
        "technique": c["technique"],
    })
m = {"version": 1,
     "setup_cmd": "bin/setup",
     "hooks": {"guard": "verif", "enable": "go build -tags verif (the harness in /verif/go builds the repository from /repo's working tree with the tag on)",
               "baseline_off_cmd": "cd /repo && go test -vet=off -count=1 ./...", "source_commits": [], "add_only": True},
     "engines": [{"name": "coq-model", "path": "/verif/coq", "serves_properties": sorted(CHECKS), "kind_free_text": "Coq 8.16.1 model + theorems; Go translator regenerating coq/Gen; OCaml-extracted model for the correspondence check; Go observation workers"}],
     "checks": checks,
     "notes": "All checks: bin/check <id> --tier quick|thorough. Known findings: known_findings.json. See DESIGN.md.",
     "not_applicable": [{"property_id": p["id"], "reason": "check under construction (framework being built in the order of DESIGN.md section 8.1); not a claim that the technique cannot apply"} for p in props if p["id"] not in CHECKS]}
json.dump(m, open(os.path.join(VERIF, "MANIFEST.json"), "w"), indent=1)
print("checks:", len(checks), "not_applicable:", len(m["not_applicable"]))
