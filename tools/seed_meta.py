#!/usr/bin/env python3
"""tools/seed_meta.py <seed-id> <property> <needs...> : writes seeded/<id>/meta.json from confirm.log and check-*.log"""
import json, os, re, sys, glob
sid, prop = sys.argv[1], sys.argv[2]
needs = " ".join(sys.argv[3:])
d = "/verif/seeded/" + sid
log = open(d + "/confirm.log").read() if os.path.exists(d + "/confirm.log") else ""
rc = dict(re.findall(r"(rc_\w+)=(\d+)", log))
checks = {}
for f in glob.glob(d + "/check-*.log"):
    p = os.path.basename(f)[6:-4]
    t = open(f).read()
    checks[p] = {"caught": "VIOLATION" in t, "with_failing_input": "VIOLATION" in t and "no-failing-input-found" not in t.split("VIOLATION")[1].split("\n")[0], "summary": [l for l in t.split("\n") if l.startswith("[")][:1]}
meta = {"id": sid, "breaks_property": prop, "needs_to_manifest": needs,
        "source": "fresh sub-agent given only the property text and a scratch worktree",
        "confirmed_by": "tools/seed_confirm.sh (scratch worktree): demo passes on the unchanged code, change applies and builds, demo fails with the change, unedited suite passes with the change",
        "confirmation": rc,
        "ran": ["tools/seed_confirm.sh " + sid, "tools/seed_run.sh %s %s   (git -C /repo apply; bin/check --tier quick; git -C /repo checkout -- .)" % (sid, " ".join(sorted(checks)))],
        "checks": checks,
        "patch_for_current_head": os.path.exists(d + "/patch-head.diff")}
json.dump(meta, open(d + "/meta.json", "w"), indent=1)
print(json.dumps(meta["confirmation"]), {k: v["caught"] for k, v in checks.items()})
