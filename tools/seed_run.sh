#!/bin/bash
# tools/seed_run.sh <seed-id> <property>... : applies the seeded patch to /repo, runs the quick checks, reverts.
ID=$1; shift
cd /repo && git status --porcelain --untracked-files=no | grep -q . && { echo "/repo not clean"; exit 2; }
P=/verif/seeded/$ID/patch.diff; [ -f /verif/seeded/$ID/patch-head.diff ] && P=/verif/seeded/$ID/patch-head.diff; git -C /repo apply $P || exit 2
for P in "$@"; do
  (cd /verif && bin/check $P --tier quick 2>&1 | grep -E "^VIOLATION|^KNOWN|^\[$P\]" | head -8) > /verif/seeded/$ID/check-$P.log
  cat /verif/seeded/$ID/check-$P.log
done
git -C /repo checkout -- .
# the evidence written while the seeded change was applied is not evidence about /repo: restore the committed files
for P in "$@"; do git -C /verif checkout -- evidence/$P.json 2>/dev/null; done
(cd /verif && python3 -c "import sys; sys.path.insert(0,'lib'); from common import prepare; prepare()" >/dev/null 2>&1)
